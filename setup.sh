#!/bin/sh
# Build the verifier offline from files on disk only.
set -e
cd "$(dirname "$0")"
export GOFLAGS=-mod=mod GOPROXY=off GOSUMDB=off GOTOOLCHAIN=local
mkdir -p bin
go build -o bin/bornovc ./cmd/bornovc
