#!/usr/bin/env python3
# prints the detection map (markdown) from seeded/*/meta.json
import json,glob,os
print("| seeded change | property | what it needs to manifest | reported by (failed obligations) |")
print("|---|---|---|---|")
for d in sorted(glob.glob('/verif/seeded/*/')):
    m=json.load(open(d+'meta.json'))
    by=[]
    for c,v in sorted(m['checks'].items(), key=lambda kv: (kv[0]!=m['property'], kv[0])):
        if v['exit']==1:
            ob=sorted(set(o.split('/')[0].split('.')[-1]+'/'+o.split('/',1)[1] if '/' in o else o for o in v['failed_obligations']))
            by.append("**%s**: %s"%(c, ", ".join("`%s`"%o for o in ob[:3])+(" …" if len(ob)>3 else "")))
        else:
            by.append("%s: passes"%c)
    print("| %s | %s | %s | %s |"%(os.path.basename(d[:-1]), m['property'], m['needs_to_manifest'].replace('|','\\|'), "; ".join(by).replace('|','\\|')))
