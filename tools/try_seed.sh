#!/bin/bash
# usage: try_seed.sh <worktree-id> <check-id>...   : confirm a mutant from /tmp/wt/<id>/_out and run checks against it
set -u
id=$1; shift
wt=/tmp/wt/$id; out=$wt/_out
export GOPROXY=off GOSUMDB=off; unset GOFLAGS
cd $wt || exit 2
echo "== build+tests on mutated tree"
go build ./... && go test -vet=off -count=1 ./... 2>&1 | tail -8
run_demo() { # prints stdout + exit status
  if [ -f $out/demo.sh ]; then
    go build -o /tmp/wt/borno_$id . || return
    (cd $out && timeout 60 bash ./demo.sh /tmp/wt/borno_$id 2>&1); echo "demo.sh exit=$?"
  elif [ -f $out/demo_test.go ]; then
    pkg=$(grep -m1 '^package ' $out/demo_test.go | awk '{print $2}'); pkg=${pkg%_test}
    [ "$pkg" = main ] && pkg=.
    cp $out/demo_test.go $wt/$pkg/zz_demo_test.go
    (cd $wt && go test -vet=off -count=1 ./$pkg 2>&1 | grep -v '^ok' | sed 's/[0-9.]*s$//' | head -40); rm -f $wt/$pkg/zz_demo_test.go
  elif [ -f $out/demo.bn ]; then
    go build -o /tmp/wt/borno_$id . || return
    if [ -f $out/stdin.txt ]; then timeout 20 /tmp/wt/borno_$id $out/demo.bn < $out/stdin.txt > /tmp/wt/demo_$id.out 2>/tmp/wt/demo_$id.err; else timeout 20 /tmp/wt/borno_$id $out/demo.bn > /tmp/wt/demo_$id.out 2>/tmp/wt/demo_$id.err </dev/null; fi
    echo "exit=$?"; cat /tmp/wt/demo_$id.out; echo "--stderr"; cat /tmp/wt/demo_$id.err
  fi
}
echo "== demo on mutated"; run_demo > /tmp/wt/demo_$id.mut
git stash -q
echo "== demo on original"; run_demo > /tmp/wt/demo_$id.orig
git stash pop -q
diff /tmp/wt/demo_$id.orig /tmp/wt/demo_$id.mut > /tmp/wt/demo_$id.diff && echo "DEMO: NO DIFFERENCE" || { echo "DEMO differs:"; cat /tmp/wt/demo_$id.diff | head -30; }
echo "== expected.txt"; cat $out/expected.txt 2>/dev/null | head -20
echo "== checks against mutated /repo"
git -C /repo status --short | grep -v '^??' && { echo "/repo dirty"; exit 2; }
git -C /repo apply $out/patch.diff || exit 2
cd /verif
for c in "$@"; do
  ./check $c quick > /tmp/wt/check_${id}_$c.log 2>&1; echo "check $c exit=$?"; grep -E 'VIOLATION|FAIL|KNOWN' /tmp/wt/check_${id}_$c.log | head -12
done
git -C /repo checkout -- .
git -C /repo status --short
