#!/bin/bash
# mk_mutant_wt.sh <wt-name> <property-id> [extra hint file]: scratch worktree of /repo (contracts stripped) + prompt for a sub-agent
set -eu
name=$1; pid=$2; extra=${3:-}
mkdir -p /tmp/wt
git -C /repo worktree add -q -f -B mut-$name /tmp/wt/$name HEAD
cd /tmp/wt/$name
git rm -q -r --cached --ignore-unmatch contracts_verif.go '*/contracts_verif.go' >/dev/null; rm -f contracts_verif.go */contracts_verif.go
git -c user.name=x -c user.email=x@x commit -q -m "strip contract files" || true
mkdir -p _out
python3 - "$name" "$pid" "$extra" <<'P'
import json,sys
name,pid,extra=sys.argv[1:4]
p=[json.loads(l) for l in open('/verif/properties.jsonl') if json.loads(l)['id']==pid][0]
hint=open(extra).read() if extra else ''
t=f"""You are testing how robust a software project is against subtle regressions. The project is Borno, a small tree-walking interpreter written in Go (lexer, recursive-descent parser, evaluator) for a dynamically typed language with Bangla keywords. You have your own scratch git worktree of it at /tmp/wt/{name} (work ONLY there; do not touch /repo or /verif, and do not read anything under /verif).

The project is supposed to satisfy this property:

TITLE: {p['title']}

STATEMENT: {p['statement']}

QUANTIFIER: {p['quantifier']['text']}

YOUR TASK: make ONE realistic change to the Go source of the interpreter in /tmp/wt/{name} (the kind of regression a maintainer could introduce by accident: an off-by-one, a swapped branch, a dropped check, a refactoring slip, two sites that each look fine alone) such that:
  1. the project still compiles:   cd /tmp/wt/{name} && env -u GOFLAGS GOPROXY=off go build ./...
  2. the existing test suite still passes exactly as before:   cd /tmp/wt/{name} && env -u GOFLAGS GOPROXY=off go test -vet=off -count=1 ./...   (all packages must report ok)
  3. the property above is violated, and
  4. the violation needs something SPECIFIC to manifest (an unusual input, a particular nesting of constructs, a multi-step sequence of operations, a particular operand combination) -- not something that ordinary use or any trivial program would expose at once.
Do not edit tests. Do not add build tags. Keep the change small (typically 1-10 lines).
{hint}
DELIVERABLES, written into /tmp/wt/{name}/_out/ :
  - patch.diff : the output of `git -C /tmp/wt/{name} diff -- . ':(exclude)_out'` (unified diff against HEAD of that worktree; paths relative to the repository root)
  - demo.bn (a Borno program; keywords must be spelled exactly as in lexer/scanner.go, copy them from there) plus expected.txt (the stdout+exit status the ORIGINAL code produces) and, if stdin is needed, stdin.txt;  OR  demo_test.go (a Go test to drop into one package directory; say which one) -- a demonstration that FAILS/differs with your change and PASSES/matches without it. If the demonstration is not a plain `borno demo.bn [< stdin.txt]` run (e.g. it needs the REPL, special arguments or a missing file), also provide demo.sh taking the path of the built binary as $1 and printing everything observable (stdout, stderr, exit status).
  - notes.md : which part of the property is broken, what is needed for it to manifest, and the exact commands you ran (including the output showing the demo passing on the original code and failing on the changed code, and the full test suite passing on the changed code).
How to run a Borno program: cd /tmp/wt/{name} && env -u GOFLAGS GOPROXY=off go run . path/to/file.bn   (the file must end in .bn; `go run . ` with no argument starts the REPL reading stdin). Look at example/*.bn and README.md for the language.
To check against the original code make a second copy: `mkdir /tmp/orig_{name} && git -C /tmp/wt/{name} archive HEAD | tar -x -C /tmp/orig_{name}` (do NOT use git stash: the stash is shared between worktrees and other people are working in sibling worktrees).
When you are done, reply with a short summary (what you changed, why tests do not catch it, what the demo shows).
"""
open(f'/tmp/wt/prompt_{name}.txt','w').write(t)
P
echo "ready /tmp/wt/$name"
