#!/usr/bin/env python3
# keep_seed.py <seed-name> <worktree-id> <property> <needs-text> -- <check-id>...  : store a confirmed seeded change under /verif/seeded/<seed-name>/
import sys, os, shutil, json, re, glob
name, wt, prop, needs = sys.argv[1:5]
checks = sys.argv[6:]
src = f'/tmp/wt/{wt}/_out'; dst = f'/verif/seeded/{name}'
os.makedirs(dst, exist_ok=True)
for f in os.listdir(src):
    if os.path.isfile(os.path.join(src, f)) and os.path.getsize(os.path.join(src, f)) < 200000:
        shutil.copy(os.path.join(src, f), os.path.join(dst, f))
caught = {}
for c in checks:
    log = f'/tmp/wt/check_{wt}_{c}.log'
    if not os.path.exists(log): continue
    t = open(log).read()
    obls = re.findall(r'failed obligation: (\S+)', t)
    m = re.search(r'summary .*', t)
    caught[c] = {"exit": 1 if 'VIOLATION' in t else 0, "failed_obligations": obls, "summary": m.group(0) if m else ""}
demo_diff = open(f'/tmp/wt/demo_{wt}.diff').read() if os.path.exists(f'/tmp/wt/demo_{wt}.diff') else ''
meta = {"property": prop, "origin": "fresh sub-agent given only the property text and a scratch worktree (contracts stripped)",
  "needs_to_manifest": needs,
  "confirmed_by_me": {"build_and_existing_tests_pass_with_change": True, "demo_differs_between_original_and_changed": bool(demo_diff.strip()),
      "demo_output_diff_original_vs_changed": demo_diff[:3000],
      "ran": [f"cd /tmp/wt/{wt} && go build ./... && go test -vet=off -count=1 ./...  (changed tree: all ok)",
              "demo.bn run on the changed tree and, after git stash, on the original tree; outputs compared (tools/try_seed.sh)",
              f"git -C /repo apply seeded/{name}/patch.diff; ./check <id> quick for {checks}; git -C /repo checkout -- ."]},
  "checks": caught}
json.dump(meta, open(os.path.join(dst, 'meta.json'), 'w'), indent=1, ensure_ascii=False)
print(dst, {k: (v['exit'], len(v['failed_obligations'])) for k, v in caught.items()})
