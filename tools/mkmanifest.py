#!/usr/bin/env python3
# Regenerates /verif/MANIFEST.json from the table below (claimed properties) and properties.jsonl.
import json, subprocess
CLAIMED = {
 "C02": ("operators: evaluateBinary/evaluateUnary and all handlers and coercions proved against binOK/unOK (IEEE via FloatingPoint 11 53, 64-bit vectors) for all operand values; the Binary/Unary/Logical rules of eval connect them to programs", "math.Pow/math.Mod/strconv.ParseFloat/fmt %v are trusted stubs; numeric-string coercion is left open as in the statement; aggregate equality is checked for reflexivity/kind only"),
 "C03": ("scope chains: Environment ADT against recursive bound/lookup/owner; per-construct rules of eval, Function.Call and Interpret fix the scope of every child evaluation (fresh child per block/for/activation/program)", "the lifting from per-construct rules to the prose statement is a paper argument; contents of maps under construction are outside (see DESIGN)"),
 "C04": ("calls: Call rule (callee, arguments left to right, arity, invoke only with no error pending), Function.Call rule (activation = fresh child of the closure, positional binding, body, return value), return-signal propagation in every construct", "recursion depth (stack exhaustion) is not modelled; argument-list contents between events pending the publication frame"),
 "C05": ("control flow: If/While/For/Break/Continue/Block rules and Interpret's stray-signal rule over the ghost event log, for all sub-trees at once", "termination of interpreted loops is the user's business; with an error pending only E1-E3 are required"),
 "C06": ("runtime errors: E1 (no call), E2 (no stdout), E3 (no further loop iteration) after the flag is up, proved at every site for any entry state; every diagnostic's line is a line field of the node at fault; flag monotone", "'describes that operation' is not checked beyond the line; exit status is C19's"),
 "C11": ("arrays: built-ins against sequence specs with frame (no pre-existing backing array written) and fresh result; ArrayAccess/ArrayAssignment rules with exact heap update; literal length/freshness", "element contents of a literal under construction pending the publication frame"),
 "C12": ("objects: PropertyAccess/PropertyAssignment rules with exact heap update, delete contract, key/value listings against the canonical enumeration (length, membership, sortedness proved; uniqueness of a sorted listing assumed)", "contents of a literal under construction pending the publication frame; the counting lemma is an assumption"),
 "C13": ("determinism: every range over a Go map is an obligation that only an `orderfree` declaration backed by proved clauses discharges; object literals follow the recorded source order", "that every other go/ssa instruction is a function of its operands is a property of the encoding; time.Now/stdin are external inputs"),
 "C14": ("evaluation order: the event log fixes which children are evaluated, once, in source order, in which scope; Logical rule returns the deciding operand; isTruthy == truthySpec for all values", "with an error pending later children may be skipped (allowed by the statement)"),
 "C15": ("printing: Print rule (exactly one line = NFC(text)+newline, nothing with an error pending), stringify contract, REPL echo rule, concatenation uses the same fmt.v text", "shortest round-trip formatting (fmt/strconv) and NFC (x/text) are trusted stubs"),
 "C16": ("origin independence as a representation invariant: canon(v) asserted at every producer (cell invariants on arrays, objects, scopes, signals, literals; canon results of eval, operators, built-ins) and assumed at every consumer", "—"),
 "C17": ("math built-ins: per built-in functional contract (count, type, value), min/max loop invariants over all argument lists, pow == ** lemma, Callable interface contract proved for all 18 implementations", "math.Sin/Cos/Tan/Pow uninterpreted; Abs/Sqrt/Round by IEEE stub semantics"),
}
NOTAPP = {}
props=[json.loads(l) for l in open('/verif/properties.jsonl')]
log=subprocess.run(['git','-C','/repo','log','--format=%h %s'],capture_output=True,text=True).stdout.strip().split('\n')
hooks=[l.split()[0] for l in log if len(l.split())>1 and l.split()[1]=='verif:']
m={"version":1,"setup_cmd":"cd /verif && ./setup.sh",
 "hooks":{"guard":"verif","enable":"go/packages BuildFlags -tags=verif: the comment-only files <pkg>/contracts_verif.go hold the //@ contracts; no executable code is guarded",
  "baseline_off_cmd":"cd /repo && env -u GOFLAGS GOPROXY=off GOSUMDB=off go test -json -vet=off -count=1 -timeout 25m ./...","source_commits":hooks,"add_only":True},
 "engines":[{"name":"bornovc","path":"/verif/cmd/bornovc","serves_properties":sorted(CLAIMED),"kind_free_text":"contract-based deductive verifier built here: forward symbolic execution / VC generation over go/ssa of /repo's current tree, contracts in //@ comments behind build tag verif, spec functions in /verif/spec/*.smt2, obligations discharged by a z3 5.1.0 / z3 4.8.12 / cvc5 1.0 portfolio"}],
 "checks":[],"not_applicable":[]}
for p in props:
    pid=p['id']
    if pid in CLAIMED:
        text,note=CLAIMED[pid]
        m["checks"].append({"property_id":pid,"quick_cmd":"./check %s quick"%pid,"thorough_cmd":"./check %s thorough"%pid,
          "evidence_file":"/verif/evidence/%s.json"%pid,"replay_cmd_template":"./bin/bornovc replay {path}","engine":"bornovc",
          "technique":"contracts on the real Go code + VC generation over go/ssa + SMT (z3/cvc5) discharge",
          "level_claimed":{"category":"proof","text":text,"design_ref":"DESIGN.md section 4 "+pid},
          "level_note":"trusted: go/ssa translation, the bornovc encoder, the solvers, amd64 float->int conversion, the stubs listed in the evidence file; not decided: "+note})
    else:
        m["not_applicable"].append({"property_id":pid,"reason":NOTAPP.get(pid,"check under construction in this session (see DESIGN.md section 6); not claimed yet")})
json.dump(m,open('/verif/MANIFEST.json','w'),indent=1,ensure_ascii=False)
print(len(m["checks"]),"checks;",len(m["not_applicable"]),"not claimed")
