#!/usr/bin/env python3
# Regenerates /verif/MANIFEST.json from the table below (claimed properties) and properties.jsonl.
import json, subprocess
CLAIMED = {
 "C02": ("operators: evaluateBinary/evaluateUnary and all handlers and coercions proved against binOK/unOK (IEEE via FloatingPoint 11 53, 64-bit vectors) for all operand values; the Binary/Unary/Logical rules of eval connect them to programs", "math.Pow/math.Mod/strconv.ParseFloat/fmt %v are trusted stubs; numeric-string coercion is left open as in the statement; aggregate equality is checked for reflexivity/kind only"),
 "C03": ("scope chains: Environment ADT against recursive bound/lookup/owner; per-construct rules of eval, Function.Call and Interpret fix the scope of every child evaluation (fresh child per block/for/activation/program)", "the lifting from per-construct rules to the prose statement is a paper argument; contents of maps under construction are outside (see DESIGN)"),
 "C04": ("calls: Call rule (callee, arguments left to right, arity, invoke only with no error pending), Function.Call rule (activation = fresh child of the closure, positional binding, body, return value), return-signal propagation in every construct", "recursion depth (stack exhaustion) is not modelled; argument-list contents between events pending the publication frame"),
 "C05": ("control flow: If/While/For/Break/Continue/Block rules and Interpret's stray-signal rule over the ghost event log, for all sub-trees at once", "termination of interpreted loops is the user's business; with an error pending only E1-E3 are required"),
 "C06": ("runtime errors: E1 (no call), E2 (no stdout), E3 (no further loop iteration) after the flag is up, proved at every site for any entry state; every diagnostic's line is a line field of the node at fault; flag monotone", "'describes that operation' is not checked beyond the line; exit status is C19's"),
 "C11": ("arrays: built-ins against sequence specs with frame (no pre-existing backing array written) and fresh result; ArrayAccess/ArrayAssignment rules with exact heap update; literal length/freshness", "element contents of a literal under construction pending the publication frame"),
 "C12": ("objects: PropertyAccess/PropertyAssignment rules with exact heap update, delete contract, key/value listings against the canonical enumeration (length, membership, sortedness proved; uniqueness of a sorted listing assumed)", "contents of a literal under construction pending the publication frame; the counting lemma is an assumption"),
 "C13": ("determinism: every range over a Go map is an obligation that only an `orderfree` declaration backed by proved clauses discharges; object literals follow the recorded source order", "that every other go/ssa instruction is a function of its operands is a property of the encoding; time.Now/stdin are external inputs"),
 "C14": ("evaluation order: the event log fixes which children are evaluated, once, in source order, in which scope; Logical rule returns the deciding operand; isTruthy == truthySpec for all values", "with an error pending later children may be skipped (allowed by the statement)"),
 "C15": ("printing: Print rule (exactly one line = NFC(text)+newline, nothing with an error pending), stringify contract, REPL echo rule, concatenation uses the same fmt.v text", "shortest round-trip formatting (fmt/strconv) and NFC (x/text) are trusted stubs"),
 "C16": ("origin independence as a representation invariant: canon(v) asserted at every producer (cell invariants on arrays, objects, scopes, signals, literals; canon results of eval, operators, built-ins) and assumed at every consumer", "—"),
 "C17": ("math built-ins: per built-in functional contract (count, type, value), min/max loop invariants over all argument lists, pow == ** lemma, Callable interface contract proved for all 18 implementations", "math.Sin/Cos/Tan/Pow uninterpreted; Abs/Sqrt/Round by IEEE stub semantics"),
}
CLAIMED.update({
 "C01": ("syntax trees: every tree the parser builds satisfies the ladder shape invariant (a binary node's left child at or above the operator's level, right child strictly above: precedence and left association; prefix operators above '**'; suffixes tightest), every ladder function stops only where its level cannot continue (follow sets), else binds to the nearest if", "that the leaves of the tree are the consumed tokens in order (yield), uniqueness of the tree and the print/reparse corollaries are not machine-checked"),
 "C08": ("front end: termination of every lexer/parser loop and of the mutual recursion (lexicographic measures), no abnormal termination, every diagnostic raises the error flag, reserved names == registered built-ins, at most 255 parameters, nothing is interpreted once the flag is up (main.run), lenient ';' / '}' still flag", "'derivable => accepted' and 'first diagnostic at the first non-viable token' are reached only through follow-set and error-at-lookahead obligations; LL(1) completeness is not machine-checked"),
 "C09": ("tokens: scanToken handles exactly the maximal-munch piece at s.start (end == mmEnd for every piece kind), classifies it by the published table (keyword table proved equal to the README list), sets lexeme/literal/line, never drops a piece silently; ScanTokens' pieces are contiguous, lines are 1+newlines, one EOF closes the list", "uniqueness of the maximal-munch partition and the global 'token list == pieces' statement are paper consequences of the per-piece contract"),
 "C10": ("numeric literals: isDigit/transliteration per code point, ConvertBanglaDigitsToASCII == trStr (loop invariant), number() consumes D+(.D+)? maximally, the value is ParseFloat(tr(lexeme)), a range error is a diagnostic without a token; run-time coercions use the same function", "correct rounding and ErrRange of strconv.ParseFloat are trusted"),
 "C18": ("invariances, reduced to proved contracts: blanks/comments produce no token (scanToken skip rows), both digit scripts go through one transliteration, && / || and their word forms get the same token types (keyword table + pieceType), Grouping returns exactly its child's result, unselected arms produce no event", "the two-run statement is relational; the lifting from these single-run contracts is a paper argument"),
 "C19": ("exit status and streams: main/runFile/run contracts (64 for bad usage, 1 for an unreadable file with nothing run, 65 iff syntax error with nothing run, 70 iff runtime error, 0 otherwise with empty stderr), stdin model: each ইনপুট delivers exactly the next line, also an unterminated last one", "os/bufio/filepath are stubs; the stdin model (lines, reader read-ahead) is an assumption"),
 "C20": ("REPL: both flags are down whenever a line is read; run writes no package-level variable other than the two flags (frame over the inferred modifies set); the echo rule of ExpressionStatement", "bufio.Scanner's line-length limit is outside the model"),
 "C07": ("no abnormal termination: one safety obligation per instruction that can panic (nil dereference, index/slice bounds, type assertion, interface comparison of uncomparable types, shift count, integer division, nil-map write, makeslice) in every function of the repository", "stack and memory exhaustion are not modelled (unbounded recursion is a known finding by design of the language)"),
})
NOTAPP = {}
props=[json.loads(l) for l in open('/verif/properties.jsonl')]
log=subprocess.run(['git','-C','/repo','log','--format=%h %s'],capture_output=True,text=True).stdout.strip().split('\n')
hooks=[l.split()[0] for l in log if len(l.split())>1 and l.split()[1]=='verif:']
m={"version":1,"setup_cmd":"cd /verif && ./setup.sh",
 "hooks":{"guard":"verif","enable":"go/packages BuildFlags -tags=verif: the comment-only files <pkg>/contracts_verif.go hold the //@ contracts; no executable code is guarded",
  "baseline_off_cmd":"cd /repo && env -u GOFLAGS GOPROXY=off GOSUMDB=off go test -json -vet=off -count=1 -timeout 25m ./...","source_commits":hooks,"add_only":True},
 "engines":[{"name":"bornovc","path":"/verif/cmd/bornovc","serves_properties":sorted(CLAIMED),"kind_free_text":"contract-based deductive verifier built here: forward symbolic execution / VC generation over go/ssa of /repo's current tree, contracts in //@ comments behind build tag verif, spec functions in /verif/spec/*.smt2, obligations discharged by a z3 5.1.0 / z3 4.8.12 / cvc5 1.0 portfolio"}],
 "checks":[],"not_applicable":[]}
for p in props:
    pid=p['id']
    if pid in CLAIMED:
        text,note=CLAIMED[pid]
        m["checks"].append({"property_id":pid,"quick_cmd":"./check %s quick"%pid,"thorough_cmd":"./check %s thorough"%pid,
          "evidence_file":"/verif/evidence/%s.json"%pid,"replay_cmd_template":"./bin/bornovc replay {path}","engine":"bornovc",
          "technique":"contracts on the real Go code + VC generation over go/ssa + SMT (z3/cvc5) discharge",
          "level_claimed":{"category":"proof","text":text,"design_ref":"DESIGN.md section 4 "+pid},
          "level_note":"trusted: go/ssa translation, the bornovc encoder, the solvers, amd64 float->int conversion, the stubs listed in the evidence file; not decided: "+note})
    else:
        m["not_applicable"].append({"property_id":pid,"reason":NOTAPP.get(pid,"check under construction in this session (see DESIGN.md section 6); not claimed yet")})
json.dump(m,open('/verif/MANIFEST.json','w'),indent=1,ensure_ascii=False)
print(len(m["checks"]),"checks;",len(m["not_applicable"]),"not claimed")
