#!/bin/bash
# mk_harmless_wt.sh <wt-name> "<area description>": scratch worktree + prompt for a behaviour-preserving refactor
set -eu
name=$1; area=$2
mkdir -p /tmp/wt
git -C /repo worktree add -q -f -B mut-$name /tmp/wt/$name HEAD
cd /tmp/wt/$name
git rm -q -r --cached --ignore-unmatch contracts_verif.go '*/contracts_verif.go' >/dev/null; rm -f contracts_verif.go */contracts_verif.go
git -c user.name=x -c user.email=x@x commit -q -m "strip contract files" || true
mkdir -p _out
cat > /tmp/wt/prompt_$name.txt <<P
You are helping to test a code-analysis tool for false alarms. The project is Borno, a small tree-walking interpreter written in Go (lexer, recursive-descent parser, evaluator) for a dynamically typed language with Bangla keywords. You have your own scratch git worktree of it at /tmp/wt/$name (work ONLY there; do not touch /repo or /verif, and do not read anything under /verif).

YOUR TASK: make THREE separate, small, strictly BEHAVIOUR-PRESERVING edits to the Go source, of the kind a maintainer does while tidying up, in this area: $area
Each edit must leave every observable behaviour of the interpreter exactly as it is for EVERY input (same stdout, stderr, exit status, same order of evaluation and side effects, same tokens/trees/values, same error messages and line numbers, same allocation/aliasing behaviour of Borno arrays and objects). Typical edits: rename local variables; reorder two statements that are independent; introduce or remove an intermediate local; invert an if condition and swap its branches; turn an if/else-if chain into a switch (or back); replace an index loop by an equivalent range loop (or back) where nothing else changes; hoist a repeated pure sub-expression into a local; add an early return that is equivalent; extract a few lines into a small helper function, or inline a tiny helper at its single call site; replace \`x = x + 1\` by \`x++\`; add comments/blank lines. Do NOT change exported names, struct fields, messages, or semantics; do not "fix" anything; do not touch tests or add build tags. Each edit 3-25 changed lines. Vary the kinds of edit across the three. In THIS round, exactly one of the three edits must be a pure rename (a local variable that is updated inside a loop, a function parameter, or a method receiver; fixing a misspelt identifier counts), one must restructure control flow without changing it (early return/continue, merged or split conditions, loop form), and one is free.

Make the three edits one after another, each as its own patch against the ORIGINAL code (not stacked): after finishing an edit, save its diff and revert (\`git -C /tmp/wt/$name checkout -- .\`) before starting the next.
For each edit k in 1..3:
  - it must compile:  cd /tmp/wt/$name && env -u GOFLAGS GOPROXY=off go build ./...
  - the test suite must pass:  cd /tmp/wt/$name && env -u GOFLAGS GOPROXY=off go test -vet=off -count=1 ./...
  - write /tmp/wt/$name/_out/h\$k.diff  (output of \`git -C /tmp/wt/$name diff -- . ':(exclude)_out'\`)
  - append to /tmp/wt/$name/_out/notes.md: what the edit is and a short argument why it cannot change behaviour for any input.
Do NOT use git stash (it is shared with sibling worktrees). When done, reply with a three-line summary (one line per edit).
P
echo ready $name
