#!/bin/bash
# runs every registered quick (or $1) check on the current tree; prints one summary line per property
cd /verif
tier=${1:-quick}
rc=0
for i in $(seq -w 1 20); do
  ./check C$i $tier > /tmp/run_all_C$i.log 2>&1; r=$?
  echo "C$i exit=$r $(grep '^summary' /tmp/run_all_C$i.log | sed 's/^summary property=C.. //')"
  [ $r -ne 0 ] && { rc=1; grep -E 'VIOLATION|failed obligation|ENGINE' /tmp/run_all_C$i.log | head -5; }
done
exit $rc
