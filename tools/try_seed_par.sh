#!/bin/bash
# usage: try_seed_par.sh <worktree-id> <check-id>...   : confirm a mutant (only /tmp/wt/<id>/_out/patch.diff is trusted) and run checks against it
set -u
id=$1; shift
out=/tmp/wt/$id/_out
S=/tmp/wt/scratch_$id; rm -rf $S; mkdir -p $S/orig $S/mut
export GOPROXY=off GOSUMDB=off; unset GOFLAGS
git -C /repo archive HEAD | tar -x -C $S/orig; cp -r $S/orig/. $S/mut/
(cd $S/mut && git apply --unsafe-paths -p1 $out/patch.diff 2>/dev/null || patch -s -p1 < $out/patch.diff) || { echo "patch does not apply"; exit 2; }
echo "== patch: $(grep -c '^[-+][^-+]' $out/patch.diff) changed lines in: $(grep '^+++ ' $out/patch.diff | tr '\n' ' ')"
echo "== build+tests on mutated tree"
(cd $S/mut && go build ./... && go test -vet=off -count=1 ./... 2>&1 | grep -v 'no test files' | tail -8)
run_demo() { # $1 = tree; prints everything observable
  local T=$1
  (cd $T && go build -o $T/borno_bin . ) || return
  if [ -f $out/demo.sh ]; then
    (cd $out && timeout 60 bash ./demo.sh $T/borno_bin 2>&1); echo "demo.sh exit=$?"
  elif [ -f $out/demo_test.go ]; then
    pkg=$(grep -m1 '^package ' $out/demo_test.go | awk '{print $2}'); pkg=${pkg%_test}
    [ "$pkg" = main ] && pkg=.
    cp $out/demo_test.go $T/$pkg/zz_demo_test.go
    (cd $T && go test -vet=off -count=1 ./$pkg 2>&1 | sed 's/[0-9.]*s$//' | head -40); rm -f $T/$pkg/zz_demo_test.go
  elif [ -f $out/demo.bn ]; then
    if [ -f $out/stdin.txt ]; then timeout 20 $T/borno_bin $out/demo.bn < $out/stdin.txt > $S/o 2>$S/e; else timeout 20 $T/borno_bin $out/demo.bn > $S/o 2>$S/e </dev/null; fi
    echo "exit=$?"; cat $S/o; echo "--stderr"; head -c 1500 $S/e
  fi
}
run_demo $S/mut > /tmp/wt/demo_$id.mut
run_demo $S/orig > /tmp/wt/demo_$id.orig
diff /tmp/wt/demo_$id.orig /tmp/wt/demo_$id.mut > /tmp/wt/demo_$id.diff && echo "DEMO: NO DIFFERENCE" || { echo "DEMO differs (orig < > mutated):"; head -24 /tmp/wt/demo_$id.diff; }
echo "== checks against a scratch copy of /repo's working tree with the change applied (VERIF_REPO/VERIF_OUT; safe to run in parallel)"
R=$S/repo; mkdir -p $R $S/vout; rsync -a --exclude .git /repo/ $R/
(cd $R && patch -s -p1 < $out/patch.diff) || { echo "patch does not apply to /repo copy"; rm -rf $S; exit 2; }
cd /verif
export GOFLAGS=-mod=mod GOPROXY=off GOSUMDB=off GOTOOLCHAIN=local
for c in "$@"; do
  VERIF_REPO=$R VERIF_OUT=$S/vout ./bin/bornovc check $c quick > /tmp/wt/check_${id}_$c.log 2>&1; echo "check $c exit=$?"; grep -E 'failed obligation|ENGINE' /tmp/wt/check_${id}_$c.log | head -8
done
rm -rf $S
