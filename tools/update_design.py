#!/usr/bin/env python3
# Rebuilds the generated parts of DESIGN.md: section 0a (from notes/asbuilt.md + evidence table) and Appendix K (seeded changes).
import json, subprocess, re, os
D='/verif/DESIGN.md'
s=open(D).read()
rows=[]
for i in range(1,21):
    p='C%02d'%i
    try:
        d=json.load(open('/verif/evidence/%s.json'%p)); c=d['coverage']
        rows.append("| %s | %d | %d | %d | %.0f s |"%(p,c['obligations'],c['vacuity_guards_checked'],len(c['functions_under_contract']),d['wall_s']))
    except Exception as e:
        rows.append("| %s | ? | ? | ? | ? |"%p)
a=open('/verif/notes/asbuilt.md').read().replace('@@TABLE@@',"\n".join(rows))
seed=subprocess.run(['/verif/tools/seedmap.py'],capture_output=True,text=True).stdout
nseed=len([d for d in os.listdir('/verif/seeded') if os.path.isdir('/verif/seeded/'+d)])
k="""## Appendix K — seeded changes and which checks report them

%d property-breaking changes written by sub-agents in eleven rounds (each agent saw one property's text and a scratch
worktree without the contract files; from round 3 on it was also told which mechanisms were already taken).  Every change
compiles, passes the unedited test suite and was confirmed by running its demonstration on the original and the changed
tree.  "Reported by" lists, per check that was run against the change, the failed obligations (function/kind:label);
the first check named is the one of the property the change was written for.  The patches, demonstrations and
`meta.json` (what it needs to manifest, what was run, and — where the first run missed it — what was changed) are under
`/verif/seeded/<name>/`; `./selftest.sh seeded` replays them against a scratch copy.

""" % nseed
k=k+""""""+seed+"\n"
def put(s,begin,end,body):
    b,e='<!-- %s -->'%begin,'<!-- %s -->'%end
    if b in s:
        return s[:s.index(b)]+b+"\n"+body+"\n"+e+s[s.index(e)+len(e):]
    return None
r=put(s,'ASBUILT-BEGIN','ASBUILT-END',a)
if r is None:
    marker='---------------------------------------------------------------------------\n\n## 1. Why this reaches what the tests cannot'
    assert marker in s
    s=s.replace(marker,'<!-- ASBUILT-BEGIN -->\n'+a+'\n<!-- ASBUILT-END -->\n\n'+marker,1)
else:
    s=r
r=put(s,'SEEDED-BEGIN','SEEDED-END',k)
if r is None:
    s=s.rstrip('\n')+'\n\n<!-- SEEDED-BEGIN -->\n'+k+'\n<!-- SEEDED-END -->\n'
else:
    s=r
open(D,'w').write(s)
print('DESIGN.md updated:',len(s.splitlines()),'lines')
