#!/bin/bash
# try_harmless.sh <name>... : apply selftest/harmless/<name>.diff to a scratch copy of /repo HEAD and verify ALL obligations; list failures
cd /verif
export GOFLAGS=-mod=mod GOPROXY=off GOSUMDB=off GOTOOLCHAIN=local
for n in "$@"; do
  S=/tmp/sc/h_$n; rm -rf $S; mkdir -p $S/src $S/out
  git -C /repo archive HEAD | tar -x -C $S/src

  (cd $S/src && patch -s -p1 < /verif/selftest/harmless/$n.diff) || { echo "$n: patch failed"; continue; }
  (cd $S/src && env -u GOFLAGS go build ./... ) || { echo "$n: build failed"; continue; }
  VERIF_REPO=$S/src VERIF_OUT=$S/out ${BORNOVC:-./bin/bornovc} verify > /tmp/sc/h_$n.log 2>&1
  echo "== $n: $(grep '^summary' /tmp/sc/h_$n.log)"
  grep -E '^FAIL|ENGINE' /tmp/sc/h_$n.log | cut -c1-220 | head -12
  rm -rf $S
done
