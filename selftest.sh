#!/bin/bash
# Self-test of the checks (not part of quick/thorough): every seeded property-breaking change under seeded/*/ must be
# reported by the check of its property (must-fail corpus), every behaviour-preserving change under selftest/harmless/*.diff
# must pass the checks named in its .checks file (must-pass corpus).  Works on scratch copies of /repo's working tree under
# a mktemp directory (VERIF_REPO / VERIF_OUT), never on /repo, and leaves evidence/ and replays/ alone.
# usage: ./selftest.sh [seeded|harmless|all] [name-filter]
cd "$(dirname "$0")" || exit 3
export GOFLAGS=-mod=mod GOPROXY=off GOSUMDB=off GOTOOLCHAIN=local
[ -x bin/bornovc ] || ./setup.sh >&2 || exit 3
ROOT=$(pwd)
what=${1:-all}; filter=${2:-}
T=$(mktemp -d /tmp/selftest.XXXXXX); trap 'rm -rf "$T"' EXIT
bad=0
run_one() { # name patch expect(0|1) checks...
  local name=$1 patch=$2 expect=$3; shift 3
  rm -rf "$T/src" "$T/out"; mkdir -p "$T/src" "$T/out"
  rsync -a --exclude .git /repo/ "$T/src/"
  (cd "$T/src" && patch -s -p1 < "$ROOT/$patch") || { echo "SELFTEST-ERROR $name: patch does not apply"; bad=1; return; }
  for c in "$@"; do
    VERIF_REPO="$T/src" VERIF_OUT="$T/out" ./bin/bornovc check "$c" quick > "$T/log" 2>&1; rc=$?
    if [ "$expect" = 1 ]; then
      if [ $rc -eq 1 ] && grep -q "^VIOLATION property=$c " "$T/log"; then echo "ok   must-fail $name: $c reports $(grep -c '^VIOLATION' "$T/log") violation(s): $(grep -m1 'failed obligation' "$T/log" | awk '{print $3}')"
      else echo "MISS must-fail $name: $c exit=$rc without VIOLATION"; bad=1; fi
    else
      if [ $rc -eq 0 ]; then echo "ok   must-pass $name: $c"
      else echo "FALSE-ALARM must-pass $name: $c exit=$rc: $(grep -m2 'failed obligation\|ENGINE' "$T/log" | tr '\n' ' ')"; bad=1; fi
    fi
  done
}
if [ "$what" = seeded ] || [ "$what" = all ]; then
  for d in seeded/*/; do
    n=$(basename "$d"); case "$n" in *"$filter"*) ;; *) continue;; esac
    prop=$(python3 -c "import json,sys; print(json.load(open('$d/meta.json'))['property'])")
    run_one "$n" "$d/patch.diff" 1 "$prop"
  done
fi
if [ "$what" = harmless ] || [ "$what" = all ]; then
  for p in selftest/harmless/*.diff; do
    [ -f "$p" ] || continue
    n=$(basename "$p" .diff); case "$n" in *"$filter"*) ;; *) continue;; esac
    run_one "$n" "$p" 0 $(cat "selftest/harmless/$n.checks")
  done
fi
exit $bad
