; Spec functions over runtime values.  Written from the property statements (C02, C14, C15, C16, C17), not from the code.
(define-fun isNil ((v Val)) Bool ((_ is VNil) v))
(define-fun isBool ((v Val)) Bool ((_ is VBool) v))
(define-fun isNum ((v Val)) Bool ((_ is VF64) v))
(define-fun isStr ((v Val)) Bool ((_ is VStr) v))
(define-fun isArr ((v Val)) Bool ((_ is VArr) v))
(define-fun isObj ((v Val)) Bool ((_ is VObj) v))
(define-fun isRunes ((v Val)) Bool ((_ is VRunes) v))
(define-fun isI64 ((v Val)) Bool ((_ is VI64) v))
(define-fun isGoInt ((v Val)) Bool ((_ is VInt) v))
(define-fun isErr ((v Val)) Bool (and ((_ is VOther) v) (= (votag v) TAG_error)))
(define-fun num ((v Val)) F64 (vf64 v))
(define-fun str ((v Val)) Str (vstr v))
(define-fun arr ((v Val)) Slice (varr v))
(define-fun obj ((v Val)) Int (vobj v))
(define-fun mkNum ((x F64)) Val (VF64 x))
(define-fun mkStr ((s Str)) Val (VStr s))
(define-fun mkBool ((b Bool)) Val (VBool b))
(define-fun mkInt ((i Int)) Val (VInt i))
(define-fun isUserFn ((v Val)) Bool (and ((_ is VPtr) v) (= (vptag v) TAG_p_interpreter_Function) (> (vpref v) 0)))
(define-fun fnRef ((v Val)) Int (vpref v))
; the 17 documented built-ins (README "Built-in functions"; registered by NewInterpreter)
(define-fun isNative ((v Val)) Bool (and ((_ is VStruct) v) (or
  (= (vstag v) TAG_interpreter_NativeClockFn) (= (vstag v) TAG_interpreter_NativeLenFn) (= (vstag v) TAG_interpreter_NativeAppendFn)
  (= (vstag v) TAG_interpreter_NativeRemoveFn) (= (vstag v) TAG_interpreter_NativeDeleteFn) (= (vstag v) TAG_interpreter_NativeKeysFn)
  (= (vstag v) TAG_interpreter_NativeValuesFn) (= (vstag v) TAG_interpreter_NativeAbsFn) (= (vstag v) TAG_interpreter_NativeSqrtFn)
  (= (vstag v) TAG_interpreter_NativePowFn) (= (vstag v) TAG_interpreter_NativeSinFn) (= (vstag v) TAG_interpreter_NativeCosFn)
  (= (vstag v) TAG_interpreter_NativeTanFn) (= (vstag v) TAG_interpreter_NativeMinFn) (= (vstag v) TAG_interpreter_NativeMaxFn)
  (= (vstag v) TAG_interpreter_NativeRoundFn) (= (vstag v) TAG_interpreter_NativeInputFn))))
(define-fun callable ((v Val)) Bool (or (isUserFn v) (isNative v)))
; C16: one host representation per Borno type
(define-fun canon ((v Val)) Bool (or (isNil v) (isBool v) (isNum v) (isStr v) (and (isArr v) (wfSlice (varr v))) (and (isObj v) (> (vobj v) 0)) (callable v)))
; C14: nil, false, 0 and "" are falsy, everything else (NaN, empty aggregates, functions) is truthy
(define-fun truthySpec ((v Val)) Bool (not (or (isNil v) (and (isBool v) (not (vbool v))) (and (isNum v) (fp.isZero (vf64 v))) (and (isStr v) (= (cplen (vstr v)) 0)))))
;@opaque intOK intOf
; C02: integers are finite, integral doubles in [-2^63, 2^63)
(define-fun f64.m2p63 () F64 (fp #b1 #b10000111110 #b0000000000000000000000000000000000000000000000000000))
(define-fun f64.p2p63 () F64 (fp #b0 #b10000111110 #b0000000000000000000000000000000000000000000000000000))
(define-fun intOK ((x F64)) Bool (and (not (fp.isNaN x)) (not (fp.isInfinite x)) (fp.eq (fp.roundToIntegral RTZ x) x) (fp.leq f64.m2p63 x) (fp.lt x f64.p2p63)))
(define-fun intOf ((x F64)) BV64 ((_ fp.to_sbv 64) RTZ x))
; text of a number as `দেখাও` prints it (fmt %v; shortest round-trip formatting is trusted)
(define-fun numText ((x F64)) Str (fmt.v (VF64 x)))
(assert (forall ((s Str)) (! (= (fmt.v (VStr s)) s) :pattern ((fmt.v (VStr s))))))
; a diagnostic's line: fmt.Sprintf with two operands is treated as a free constructor (trusted)
(declare-fun sprintf2.arg2 (Str) Val)
(assert (forall ((f Str) (a Val) (b Val)) (! (= (sprintf2.arg2 (fmt.sprintf2 f a b)) b) :pattern ((fmt.sprintf2 f a b)))))
(define-fun diagLine ((s Str)) Int (vint (sprintf2.arg2 s)))
(declare-fun sprintf3.arg1 (Str) Val)
(assert (forall ((f Str) (a Val) (b Val) (c Val)) (! (= (sprintf3.arg1 (fmt.sprintf3 f a b c)) a) :pattern ((fmt.sprintf3 f a b c)))))
(define-fun reportLine ((s Str)) Int (vint (sprintf3.arg1 s)))
; C10: transliteration of a whole string (defined by code points in 30_lexical.smt2)
(declare-fun trStr (Str) Str)
; error protocol of a function that may report one runtime error for `line`
(define-fun errProto ((of Bool) (nf Bool) (on Int) (nn Int) (log (Array Int Str)) (line Int)) Bool
  (and (=> of nf) (=> (and (not of) nf) (and (= nn (+ on 1)) (= (diagLine (select log on)) line))) (=> (= of nf) (= nn on))))
; syntax-tree well-formedness (assumed by the interpreter, established by the parser): child links are non-nil node pointers
(define-fun nodeOK ((v Val)) Bool (and ((_ is VPtr) v) (> (vpref v) 0)))
(define-fun optNode ((v Val)) Bool (or (= v VNil) (nodeOK v)))

; acyclicVal(v): formatting v with fmt's %v terminates. Numbers, strings, booleans, nil and functions are leaves; for arrays and
; objects nothing in the interpreter establishes it (a.x = a is legal), so acyclicContainer stays uninterpreted: the obligation
; at stringify's fmt.Sprintf cannot be discharged -- known finding D-23.
(declare-fun acyclicContainer (Val) Bool)
(define-fun acyclicVal ((v Val)) Bool (or (not (or ((_ is VArr) v) ((_ is VObj) v))) (acyclicContainer v)))
