; ---- C01 / C08: the precedence ladder of grammer.txt (assignment=0, logic_or=1, logic_and=2, bitwise_or=3, bitwise_xor=4,
; bitwise_and=5, equality=6, comparison=7, shift=8, term=9, factor=10, power=11, unary=12, call=13, primary=14)
(define-fun binLevel ((t Int)) Int
  (ite (= t K_token_OR) 3 (ite (= t K_token_XOR) 4 (ite (= t K_token_AND) 5
  (ite (or (= t K_token_BANG_EQUAL) (= t K_token_EQUAL_EQUAL)) 6
  (ite (or (= t K_token_GREATER) (= t K_token_GREATER_EQUAL) (= t K_token_LESS) (= t K_token_LESS_EQUAL)) 7
  (ite (or (= t K_token_LEFT_SHIFT) (= t K_token_RIGHT_SHIFT)) 8
  (ite (or (= t K_token_MINUS) (= t K_token_PLUS)) 9
  (ite (or (= t K_token_SLASH) (= t K_token_STAR) (= t K_token_MODULO)) 10
  (ite (= t K_token_POWER) 11 (- 1)))))))))))
(define-fun logLevel ((t Int)) Int (ite (= t K_token_LOGICAL_OR) 1 (ite (= t K_token_LOGICAL_AND) 2 (- 1))))
; opLevel of a look-ahead token: the ladder level that would continue with it (13: a suffix opener, 0: '='), -1 if none
(define-fun opLevel ((t Int)) Int
  (ite (>= (binLevel t) 0) (binLevel t) (ite (>= (logLevel t) 0) (logLevel t)
  (ite (or (= t K_token_LEFT_PAREN) (= t K_token_LEFT_BRACKET) (= t K_token_DOT)) 13 (ite (= t K_token_EQUAL) 0 (- 1))))))
(define-fun isPrefixOp ((t Int)) Bool (or (= t K_token_BANG) (= t K_token_MINUS) (= t K_token_NOT)))
; ladder level of a tree (by the form of its root)
(define-fun lvl ((hb (Array Int S_token_Token)) (hl (Array Int S_token_Token)) (v Val)) Int
  (ite (isBinary v) (binLevel (S_token_Token_Type (select hb (vpref v))))
  (ite (isLogical v) (logLevel (S_token_Token_Type (select hl (vpref v))))
  (ite (isUnary v) 12
  (ite (or (isCall v) (isArrayAccess v) (isPropertyAccess v)) 13
  (ite (or (isLiteral v) (isIdentifier v) (isGrouping v) (isArrayLiteral v) (isObjectLiteral v)) 14
  (ite (or (isAssignmentStmt v) (isArrayAssignment v) (isPropertyAssignment v)) 0 (- 1))))))))
;@heap lvl H_ast_Binary_Operator H_ast_Logical_Operator
(define-fun tokRow ((e (Array Int (Array Int S_token_Token))) (r Int)) (Array Int S_token_Token) (select e r))
;@heap tokRow E_S_token_Token
(define-fun tokArrAllocated ((a (Array Int Bool)) (r Int)) Bool (select a r))
;@heap tokArrAllocated A_E_S_token_Token
(define-fun exprArrAllocated ((a (Array Int Bool)) (r Int)) Bool (select a r))
;@heap exprArrAllocated A_E_ast_Expr
(define-fun stmtArrAllocated ((a (Array Int Bool)) (r Int)) Bool (select a r))
;@heap stmtArrAllocated A_E_ast_Stmt
(define-fun varStmtArrAllocated ((a (Array Int Bool)) (r Int)) Bool (select a r))
;@heap varStmtArrAllocated A_E_S_ast_VarStmt
(define-fun astMapAllocated ((a (Array Int Bool)) (r Int)) Bool (select a r))
;@heap astMapAllocated A_M_Str_ast_Expr
; the operator-carrying nodes a tree value points to exist (so that fields written only at construction keep their value)
(define-fun liveOp ((ab (Array Int Bool)) (al (Array Int Bool)) (v Val)) Bool (and (=> (isBinary v) (select ab (vpref v))) (=> (isLogical v) (select al (vpref v)))))
;@heap liveOp A_H_ast_Binary A_H_ast_Logical
