; C03: scope chains.  A scope is a reference e with a table Values(e) (an object map) and a parent Parent(e); 0 is "no scope".
; bound / lookup / owner are recursive over the parent chain; the engine instantiates one unfolding (NAME$def) per ground occurrence.
(declare-fun envBound ((Array Int Int) (Array Int Int) (Array Int (Array Str Bool)) Int Str) Bool)
(define-fun envBound$def ((hv (Array Int Int)) (hp (Array Int Int)) (md (Array Int (Array Str Bool))) (e Int) (n Str)) Bool
  (and (not (= e 0)) (or (select (select md (select hv e)) n) (envBound hv hp md (select hp e) n))))
;@heap envBound H_environment_Environment_Values H_environment_Environment_Parent MD_Str_Val
;@unfold envBound
(declare-fun envOwner ((Array Int Int) (Array Int Int) (Array Int (Array Str Bool)) Int Str) Int)
(define-fun envOwner$def ((hv (Array Int Int)) (hp (Array Int Int)) (md (Array Int (Array Str Bool))) (e Int) (n Str)) Int
  (ite (= e 0) 0 (ite (select (select md (select hv e)) n) e (envOwner hv hp md (select hp e) n))))
;@heap envOwner H_environment_Environment_Values H_environment_Environment_Parent MD_Str_Val
;@unfold envOwner
(declare-fun envLookup ((Array Int Int) (Array Int Int) (Array Int (Array Str Bool)) (Array Int (Array Str Val)) Int Str) Val)
(define-fun envLookup$def ((hv (Array Int Int)) (hp (Array Int Int)) (md (Array Int (Array Str Bool))) (mv (Array Int (Array Str Val))) (e Int) (n Str)) Val
  (ite (= e 0) VNil (ite (select (select md (select hv e)) n) (select (select mv (select hv e)) n) (envLookup hv hp md mv (select hp e) n))))
;@heap envLookup H_environment_Environment_Values H_environment_Environment_Parent MD_Str_Val MV_Str_Val
;@unfold envLookup
(define-fun envTable ((hv (Array Int Int)) (e Int)) Int (select hv e))
;@heap envTable H_environment_Environment_Values
(define-fun envParent ((hp (Array Int Int)) (e Int)) Int (select hp e))
;@heap envParent H_environment_Environment_Parent
(define-fun envHere ((hv (Array Int Int)) (md (Array Int (Array Str Bool))) (e Int) (n Str)) Bool (select (select md (select hv e)) n))
;@heap envHere H_environment_Environment_Values MD_Str_Val
