; C03: scope chains.  A scope is a reference e with a table Values(e) (an object map) and a parent Parent(e); 0 is "no scope".
; bound / lookup / owner are recursive over the parent chain; the engine instantiates one unfolding (NAME$def) per ground occurrence.
(declare-fun envBound ((Array Int Int) (Array Int Int) (Array Int (Array Str Bool)) Int Str) Bool)
(define-fun envBound$def ((hv (Array Int Int)) (hp (Array Int Int)) (md (Array Int (Array Str Bool))) (e Int) (n Str)) Bool
  (and (not (= e 0)) (or (select (select md (select hv e)) n) (envBound hv hp md (select hp e) n))))
;@heap envBound H_environment_Environment_Values H_environment_Environment_Parent MD_Str_Val
;@unfold envBound
(declare-fun envOwner ((Array Int Int) (Array Int Int) (Array Int (Array Str Bool)) Int Str) Int)
(define-fun envOwner$def ((hv (Array Int Int)) (hp (Array Int Int)) (md (Array Int (Array Str Bool))) (e Int) (n Str)) Int
  (ite (= e 0) 0 (ite (select (select md (select hv e)) n) e (envOwner hv hp md (select hp e) n))))
;@heap envOwner H_environment_Environment_Values H_environment_Environment_Parent MD_Str_Val
;@unfold envOwner
(declare-fun envLookup ((Array Int Int) (Array Int Int) (Array Int (Array Str Bool)) (Array Int (Array Str Val)) Int Str) Val)
(define-fun envLookup$def ((hv (Array Int Int)) (hp (Array Int Int)) (md (Array Int (Array Str Bool))) (mv (Array Int (Array Str Val))) (e Int) (n Str)) Val
  (ite (= e 0) VNil (ite (select (select md (select hv e)) n) (select (select mv (select hv e)) n) (envLookup hv hp md mv (select hp e) n))))
;@heap envLookup H_environment_Environment_Values H_environment_Environment_Parent MD_Str_Val MV_Str_Val
;@unfold envLookup
(define-fun envTable ((hv (Array Int Int)) (e Int)) Int (select hv e))
;@heap envTable H_environment_Environment_Values
(define-fun envParent ((hp (Array Int Int)) (e Int)) Int (select hp e))
;@heap envParent H_environment_Environment_Parent
(define-fun envHere ((hv (Array Int Int)) (md (Array Int (Array Str Bool))) (e Int) (n Str)) Bool (select (select md (select hv e)) n))
;@heap envHere H_environment_Environment_Values MD_Str_Val
; the same notions evaluated on an explicit object heap (e.g. the state after an event of the log)
(define-fun envBoundIn ((hv (Array Int Int)) (hp (Array Int Int)) (md (Array Int (Array Str Bool))) (e Int) (n Str)) Bool (envBound hv hp md e n))
;@heap envBoundIn H_environment_Environment_Values H_environment_Environment_Parent
(define-fun envOwnerIn ((hv (Array Int Int)) (hp (Array Int Int)) (md (Array Int (Array Str Bool))) (e Int) (n Str)) Int (envOwner hv hp md e n))
;@heap envOwnerIn H_environment_Environment_Values H_environment_Environment_Parent
(define-fun envHereIn ((hv (Array Int Int)) (md (Array Int (Array Str Bool))) (e Int) (n Str)) Bool (select (select md (select hv e)) n))
;@heap envHereIn H_environment_Environment_Values
(define-fun envAllocated ((a (Array Int Bool)) (e Int)) Bool (select a e))
;@heap envAllocated A_H_environment_Environment
; whole-heap views of the current state
(define-fun curMD ((x (Array Int (Array Str Bool)))) (Array Int (Array Str Bool)) x)
;@heap curMD MD_Str_Val
(define-fun curMV ((x (Array Int (Array Str Val)))) (Array Int (Array Str Val)) x)
;@heap curMV MV_Str_Val
(define-fun curMC ((x (Array Int Int))) (Array Int Int) x)
;@heap curMC MC_Str_Val
(define-fun curEV ((x (Array Int (Array Int Val)))) (Array Int (Array Int Val)) x)
;@heap curEV E_Val
(define-fun emptyDom () (Array Str Bool) ((as const (Array Str Bool)) false))
; a scope table gets one more binding / a binding is overwritten
(define-fun mdDefine ((md (Array Int (Array Str Bool))) (t Int) (n Str)) (Array Int (Array Str Bool)) (store md t (store (select md t) n true)))
(define-fun mvDefine ((mv (Array Int (Array Str Val))) (t Int) (n Str) (v Val)) (Array Int (Array Str Val)) (store mv t (store (select mv t) n v)))
(define-fun mcDefine ((mc (Array Int Int)) (md (Array Int (Array Str Bool))) (t Int) (n Str)) (Array Int Int) (store mc t (+ (select mc t) (ite (select (select md t) n) 0 1))))
