; C17 / C04: arity of the documented built-ins (-1 = variadic) -- README "Built-in functions"
(define-fun nativeArity ((v Val)) Int
  (ite (= (vstag v) TAG_interpreter_NativeClockFn) 0
  (ite (or (= (vstag v) TAG_interpreter_NativeLenFn) (= (vstag v) TAG_interpreter_NativeKeysFn) (= (vstag v) TAG_interpreter_NativeValuesFn)
           (= (vstag v) TAG_interpreter_NativeAbsFn) (= (vstag v) TAG_interpreter_NativeSqrtFn) (= (vstag v) TAG_interpreter_NativeSinFn)
           (= (vstag v) TAG_interpreter_NativeCosFn) (= (vstag v) TAG_interpreter_NativeTanFn) (= (vstag v) TAG_interpreter_NativeRoundFn)) 1
  (ite (or (= (vstag v) TAG_interpreter_NativeRemoveFn) (= (vstag v) TAG_interpreter_NativeDeleteFn) (= (vstag v) TAG_interpreter_NativePowFn)) 2
  (- 1)))))
(define-fun arityOf ((hDecl (Array Int Int)) (hParams (Array Int Slice)) (v Val)) Int
  (ite (isUserFn v) (s.len (select hParams (select hDecl (vpref v)))) (nativeArity v)))
;@heap arityOf H_interpreter_Function_Declaration H_ast_FunctionStmt_Params
; exact IEEE operations (trusted correspondence with math.Abs / math.Sqrt / math.Round)
(define-fun absSpec ((x F64)) F64 (fp.abs x))
(define-fun sqrtSpec ((x F64)) F64 (fp.sqrt RNE x))
(define-fun roundSpec ((x F64)) F64 (fp.roundToIntegral RNA x))
(define-fun fplt ((a F64) (b F64)) Bool (fp.lt a b))
(define-fun fpgt ((a F64) (b F64)) Bool (fp.gt a b))
(define-fun isNaN ((a F64)) Bool (fp.isNaN a))
; objects (C12): domain, values and cardinality of the map behind an object reference
(define-fun objHas ((md (Array Int (Array Str Bool))) (o Int) (k Str)) Bool (select (select md o) k))
;@heap objHas MD_Str_Val
(define-fun objGet ((mv (Array Int (Array Str Val))) (o Int) (k Str)) Val (select (select mv o) k))
;@heap objGet MV_Str_Val
(define-fun objCard ((mc (Array Int Int)) (o Int)) Int (select mc o))
;@heap objCard MC_Str_Val
(define-fun objDom ((md (Array Int (Array Str Bool))) (o Int)) (Array Str Bool) (select md o))
;@heap objDom MD_Str_Val
(define-fun objVals ((mv (Array Int (Array Str Val))) (o Int)) (Array Str Val) (select mv o))
;@heap objVals MV_Str_Val
; arrays (C11): row of cells behind a backing-array reference, and "was allocated before the call"
(define-fun arrRow ((e (Array Int (Array Int Val))) (r Int)) (Array Int Val) (select e r))
;@heap arrRow E_Val
(define-fun arrAllocated ((a (Array Int Bool)) (r Int)) Bool (select a r))
;@heap arrAllocated A_E_Val
(define-fun i2f ((i Int)) F64 ((_ to_fp 11 53) RNE (to_real i)))
(define-fun mapAllocated ((a (Array Int Bool)) (r Int)) Bool (select a r))
;@heap mapAllocated A_M_Str_Val
(define-fun fnAllocated ((a (Array Int Bool)) (r Int)) Bool (select a r))
;@heap fnAllocated A_H_interpreter_Function
(define-fun varStmtAllocated ((a (Array Int Bool)) (r Int)) Bool (select a r))
;@heap varStmtAllocated A_H_ast_VarStmt
; C12/C13: the canonical (ascending) enumeration of the names in a domain
(declare-fun sortedKeyOf ((Array Str Bool) Int) Str)
(define-fun strlt ((a Str) (b Str)) Bool (str.lt a b))
; the same device for the property names of an object literal (the parser lists each name once; that fact is not part of the
; node's type invariant, so the contents clause of the ObjectLiteral rule is stated under distinctKeysOf)
(declare-fun keyIndex (Str) Int)
(declare-fun distinctKeysOf (Int) Bool)
; callBudget(i): how many more interpreted calls may be nested inside the current one before the interpreter refuses with a
; runtime error. The interpreter keeps no such counter: the symbol is uninterpreted, so the re-entry obligation of
; (*Function).Call (its measure has decreased when the body is evaluated) cannot be discharged -- known finding D-19.
(declare-fun callBudget (Int) Int)
; "the parameter names are pairwise distinct", stated through an (arbitrary) indexing of names: forall k: nameIndex(P[k]) == k
(declare-fun nameIndex (Str) Int)
; distinctParamsOf(d): "the parameter names of declaration d are pairwise distinct" -- an otherwise uninterpreted predicate that
; contracts constrain only by `defines distinctParamsOf(d) ==> forall k: nameIndex(P[k]) == k` (a conservative definition)
(declare-fun distinctParamsOf (Int) Bool)
(define-fun readerPos ((x (Array Int Int))) (Array Int Int) x)
;@heap readerPos XR_pos
