; C10: digit classification and transliteration, per code point (from the statement: the ten Bangla digits U+09E6..U+09EF, nothing else)
(define-fun isDigitSpec ((c Int)) Bool (or (and (<= 48 c) (<= c 57)) (and (<= 2534 c) (<= c 2543))))
(define-fun trCp ((c Int)) Int (ite (and (<= 2534 c) (<= c 2543)) (+ 48 (- c 2534)) c))
; strings.Builder (trusted): appending one code point
(assert (forall ((s Str) (c Int)) (! (= (cplen (ext.builder.add s c)) (+ (cplen s) 1)) :pattern ((ext.builder.add s c)))))
(assert (forall ((s Str) (c Int) (k Int)) (! (= (cp (ext.builder.add s c) k) (ite (= k (cplen s)) c (cp s k))) :pattern ((cp (ext.builder.add s c) k)))))
(define-fun sbText ((h (Array Int Str)) (p Int)) Str (select h p))
;@heap sbText XS_strings_Builder
; transliteration of the first n code points, and of the whole string
(declare-fun trFold (Str Int) Str)
(assert (forall ((s Str)) (! (= (trFold s 0) str_empty) :pattern ((trFold s 0)))))
(assert (forall ((s Str) (n Int)) (! (=> (>= n 0) (= (trFold s (+ n 1)) (ext.builder.add (trFold s n) (trCp (cp s n))))) :pattern ((trFold s (+ n 1))))))
(assert (forall ((s Str)) (! (= (trStr s) (trFold s (cplen s))) :pattern ((trStr s)))))
