; C10: digit classification and transliteration, per code point (from the statement: the ten Bangla digits U+09E6..U+09EF, nothing else)
(define-fun isDigitSpec ((c Int)) Bool (or (and (<= 48 c) (<= c 57)) (and (<= 2534 c) (<= c 2543))))
(define-fun trCp ((c Int)) Int (ite (and (<= 2534 c) (<= c 2543)) (+ 48 (- c 2534)) c))
; strings.Builder (trusted): appending one code point
(assert (forall ((s Str) (c Int)) (! (= (cplen (ext.builder.add s c)) (+ (cplen s) 1)) :pattern ((ext.builder.add s c)))))
(assert (forall ((s Str) (c Int) (k Int)) (! (= (cp (ext.builder.add s c) k) (ite (= k (cplen s)) c (cp s k))) :pattern ((cp (ext.builder.add s c) k)))))
(define-fun sbText ((h (Array Int Str)) (p Int)) Str (select h p))
;@heap sbText XS_strings_Builder
; transliteration of the first n code points, and of the whole string
(declare-fun trFold (Str Int) Str)
(assert (forall ((s Str)) (! (= (trFold s 0) str_empty) :pattern ((trFold s 0)))))
(assert (forall ((s Str) (n Int)) (! (=> (>= n 0) (= (trFold s (+ n 1)) (ext.builder.add (trFold s n) (trCp (cp s n))))) :pattern ((trFold s (+ n 1))))))
(assert (forall ((s Str)) (! (= (trStr s) (trFold s (cplen s))) :pattern ((trStr s)))))
; ---- C09: the source text as a sequence of code points; lexical classes (Appendix F of DESIGN.md, from the statement of C09)
(define-fun src ((e (Array Int (Array Int Int))) (s Slice) (k Int)) Int (select (select e (s.ref s)) (+ (s.off s) k)))
;@heap src E_Int
(define-fun isAlphaSpec ((c Int)) Bool (or (ext.isletter c) (ext.ismark c) (= c 95)))
(define-fun isAlnumSpec ((c Int)) Bool (or (isAlphaSpec c) (isDigitSpec c)))
; trusted facts about the Unicode tables: NUL, ASCII digits, blanks and punctuation are neither letters nor marks
(assert (forall ((c Int)) (! (=> (and (<= 0 c) (< c 128) (not (and (<= 65 c) (<= c 90))) (not (and (<= 97 c) (<= c 122)))) (and (not (ext.isletter c)) (not (ext.ismark c)))) :pattern ((ext.isletter c)))))
(assert (forall ((c Int)) (! (=> (and (<= 0 c) (< c 128)) (not (ext.ismark c))) :pattern ((ext.ismark c)))))
; the text of a piece of the source
(define-fun text ((e (Array Int (Array Int Int))) (s Slice) (a Int) (b Int)) Str (str.of (select e (s.ref s)) (+ (s.off s) a) (- b a)))
;@heap text E_Int
; nl(k): number of line feeds among the first k code points
(declare-fun nl ((Array Int (Array Int Int)) Slice Int) Int)
(define-fun nl$def ((e (Array Int (Array Int Int))) (s Slice) (k Int)) Int (ite (<= k 0) 0 (+ (nl e s (- k 1)) (ite (= (src e s (- k 1)) 10) 1 0))))
;@heap nl E_Int
;@unfold nl
; end of the maximal run of identifier characters / digits starting at k
(declare-fun identEnd ((Array Int (Array Int Int)) Slice Int) Int)
(define-fun identEnd$def ((e (Array Int (Array Int Int))) (s Slice) (k Int)) Int (ite (and (<= 0 k) (< k (s.len s)) (isAlnumSpec (src e s k))) (identEnd e s (+ k 1)) k))
;@heap identEnd E_Int
;@unfold identEnd
(declare-fun digitsEnd ((Array Int (Array Int Int)) Slice Int) Int)
(define-fun digitsEnd$def ((e (Array Int (Array Int Int))) (s Slice) (k Int)) Int (ite (and (<= 0 k) (< k (s.len s)) (isDigitSpec (src e s k))) (digitsEnd e s (+ k 1)) k))
;@heap digitsEnd E_Int
;@unfold digitsEnd
; first position >= k holding code point c, or the end of the text
(declare-fun findCp ((Array Int (Array Int Int)) Slice Int Int) Int)
(define-fun findCp$def ((e (Array Int (Array Int Int))) (s Slice) (k Int) (c Int)) Int (ite (and (<= 0 k) (< k (s.len s)) (not (= (src e s k) c))) (findCp e s (+ k 1) c) k))
;@heap findCp E_Int
;@unfold findCp
; first position >= k where "*/" starts, or the end of the text
(declare-fun findStarSlash ((Array Int (Array Int Int)) Slice Int) Int)
(define-fun findStarSlash$def ((e (Array Int (Array Int Int))) (s Slice) (k Int)) Int (ite (and (<= 0 k) (< k (s.len s)) (not (and (= (src e s k) 42) (< (+ k 1) (s.len s)) (= (src e s (+ k 1)) 47)))) (findStarSlash e s (+ k 1)) k))
;@heap findStarSlash E_Int
;@unfold findStarSlash
; end of a numeric literal starting at a: digits, then optionally a point followed by at least one digit and more digits
(define-fun numberEnd ((e (Array Int (Array Int Int))) (s Slice) (a Int)) Int
  (ite (and (< (digitsEnd e s a) (s.len s)) (= (src e s (digitsEnd e s a)) 46) (< (+ (digitsEnd e s a) 1) (s.len s)) (isDigitSpec (src e s (+ (digitsEnd e s a) 1))))
       (digitsEnd e s (+ (digitsEnd e s a) 1)) (digitsEnd e s a)))
;@heap numberEnd E_Int
; ---- C09: maximal munch.  For a piece starting at position a (a < n): its end, whether it is a token, and the token type.
(define-fun src1 ((e (Array Int (Array Int Int))) (s Slice) (a Int)) Int (ite (< (+ a 1) (s.len s)) (src e s (+ a 1)) 0))
;@heap src1 E_Int
(define-fun isSingleOp ((c Int)) Bool (or (= c 40) (= c 41) (= c 123) (= c 125) (= c 91) (= c 93) (= c 44) (= c 46) (= c 45) (= c 58) (= c 43) (= c 59) (= c 94) (= c 126) (= c 37)))
(define-fun isBlankCp ((c Int)) Bool (or (= c 32) (= c 13) (= c 9) (= c 10)))
(define-fun mmEnd ((e (Array Int (Array Int Int))) (s Slice) (a Int)) Int
  (let ((c (src e s a)) (d (src1 e s a)) (n (s.len s)))
  (ite (isSingleOp c) (+ a 1)
  (ite (= c 124) (ite (= d 124) (+ a 2) (+ a 1))
  (ite (= c 38) (ite (= d 38) (+ a 2) (+ a 1))
  (ite (= c 42) (ite (= d 42) (+ a 2) (+ a 1))
  (ite (= c 33) (ite (= d 61) (+ a 2) (+ a 1))
  (ite (= c 61) (ite (= d 61) (+ a 2) (+ a 1))
  (ite (= c 60) (ite (or (= d 61) (= d 60)) (+ a 2) (+ a 1))
  (ite (= c 62) (ite (or (= d 61) (= d 62)) (+ a 2) (+ a 1))
  (ite (= c 47) (ite (= d 47) (findCp e s (+ a 2) 10) (ite (= d 42) (ite (< (findStarSlash e s (+ a 2)) n) (+ (findStarSlash e s (+ a 2)) 2) n) (+ a 1)))
  (ite (isBlankCp c) (+ a 1)
  (ite (= c 34) (ite (< (findCp e s (+ a 1) 34) n) (+ (findCp e s (+ a 1) 34) 1) n)
  (ite (isDigitSpec c) (numberEnd e s a)
  (ite (isAlphaSpec c) (identEnd e s (+ a 1))
  (+ a 1))))))))))))))))
;@heap mmEnd E_Int
; classification of the piece: 0 = skipped silently (blank, comment), 1 = token, 2 = diagnostic (no token)
(define-fun pieceKind ((e (Array Int (Array Int Int))) (s Slice) (a Int)) Int
  (let ((c (src e s a)) (d (src1 e s a)) (n (s.len s)))
  (ite (or (isSingleOp c) (= c 124) (= c 38) (= c 42) (= c 33) (= c 61) (= c 60) (= c 62)) 1
  (ite (= c 47) (ite (= d 47) 0 (ite (= d 42) (ite (< (findStarSlash e s (+ a 2)) n) 0 2) 1))
  (ite (isBlankCp c) 0
  (ite (= c 34) (ite (< (findCp e s (+ a 1) 34) n) 1 2)
  (ite (isDigitSpec c) (ite (ext.parsefloat.ok (trStr (text e s a (numberEnd e s a)))) 1 2)
  (ite (isAlphaSpec c) 1
  2))))))))
;@heap pieceKind E_Int
(define-fun pieceType ((e (Array Int (Array Int Int))) (s Slice) (a Int)) Int
  (let ((c (src e s a)) (d (src1 e s a)))
  (ite (= c 40) K_token_LEFT_PAREN (ite (= c 41) K_token_RIGHT_PAREN (ite (= c 123) K_token_LEFT_BRACE (ite (= c 125) K_token_RIGHT_BRACE
  (ite (= c 91) K_token_LEFT_BRACKET (ite (= c 93) K_token_RIGHT_BRACKET (ite (= c 44) K_token_COMMA (ite (= c 46) K_token_DOT
  (ite (= c 45) K_token_MINUS (ite (= c 58) K_token_COLON (ite (= c 43) K_token_PLUS (ite (= c 59) K_token_SEMICOLON
  (ite (= c 94) K_token_XOR (ite (= c 126) K_token_NOT (ite (= c 37) K_token_MODULO
  (ite (= c 124) (ite (= d 124) K_token_LOGICAL_OR K_token_OR)
  (ite (= c 38) (ite (= d 38) K_token_LOGICAL_AND K_token_AND)
  (ite (= c 42) (ite (= d 42) K_token_POWER K_token_STAR)
  (ite (= c 33) (ite (= d 61) K_token_BANG_EQUAL K_token_BANG)
  (ite (= c 61) (ite (= d 61) K_token_EQUAL_EQUAL K_token_EQUAL)
  (ite (= c 60) (ite (= d 61) K_token_LESS_EQUAL (ite (= d 60) K_token_LEFT_SHIFT K_token_LESS))
  (ite (= c 62) (ite (= d 61) K_token_GREATER_EQUAL (ite (= d 62) K_token_RIGHT_SHIFT K_token_GREATER))
  (ite (= c 47) K_token_SLASH
  (ite (= c 34) K_token_STRING
  (ite (isDigitSpec c) K_token_NUMBER
  K_token_IDENTIFIER)))))))))))))))))))))))))))
;@heap pieceType E_Int
