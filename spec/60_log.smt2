; Ghost event log of one invocation of eval / Function.Call / Interpret (C03-C06, C14, C15, C11, C12).
; Event k is one call of eval (kind 1) or one Callable.Call (kind 2) made by the invocation itself, with the
; Borno-visible state immediately before and after it.  The log is written by the verifier at the call sites of the
; real code; the rules of each construct are postconditions over it.
(define-fun evN ((n Int)) Int n)
;@heap evN LOG_N
(define-fun evKind ((l (Array Int Int)) (k Int)) Int (select l k))
;@heap evKind LOG_kind
(define-fun evChild ((l (Array Int Val)) (k Int)) Val (select l k))
;@heap evChild LOG_child
(define-fun evEnv ((l (Array Int Int)) (k Int)) Int (select l k))
;@heap evEnv LOG_env
(define-fun evRepl ((l (Array Int Bool)) (k Int)) Bool (select l k))
;@heap evRepl LOG_repl
(define-fun evArgs ((l (Array Int Slice)) (k Int)) Slice (select l k))
;@heap evArgs LOG_args
(define-fun evVal ((l (Array Int Val)) (k Int)) Val (select l k))
;@heap evVal LOG_val
(define-fun evSig ((l (Array Int Int)) (k Int)) Int (select l k))
;@heap evSig LOG_sig
(define-fun evErr ((l (Array Int Val)) (k Int)) Val (select l k))
;@heap evErr LOG_err
(define-fun preMD ((l (Array Int (Array Int (Array Str Bool)))) (k Int)) (Array Int (Array Str Bool)) (select l k))
;@heap preMD LOG_preMD
(define-fun preMV ((l (Array Int (Array Int (Array Str Val)))) (k Int)) (Array Int (Array Str Val)) (select l k))
;@heap preMV LOG_preMV
(define-fun preMC ((l (Array Int (Array Int Int))) (k Int)) (Array Int Int) (select l k))
;@heap preMC LOG_preMC
(define-fun preEV ((l (Array Int (Array Int (Array Int Val)))) (k Int)) (Array Int (Array Int Val)) (select l k))
;@heap preEV LOG_preEV
(define-fun preOut ((l (Array Int Int)) (k Int)) Int (select l k))
;@heap preOut LOG_preOut
(define-fun preErr ((l (Array Int Int)) (k Int)) Int (select l k))
;@heap preErr LOG_preErr
(define-fun preFlag ((l (Array Int Bool)) (k Int)) Bool (select l k))
;@heap preFlag LOG_preFlag
(define-fun postMD ((l (Array Int (Array Int (Array Str Bool)))) (k Int)) (Array Int (Array Str Bool)) (select l k))
;@heap postMD LOG_postMD
(define-fun postMV ((l (Array Int (Array Int (Array Str Val)))) (k Int)) (Array Int (Array Str Val)) (select l k))
;@heap postMV LOG_postMV
(define-fun postMC ((l (Array Int (Array Int Int))) (k Int)) (Array Int Int) (select l k))
;@heap postMC LOG_postMC
(define-fun postEV ((l (Array Int (Array Int (Array Int Val)))) (k Int)) (Array Int (Array Int Val)) (select l k))
;@heap postEV LOG_postEV
(define-fun postOut ((l (Array Int Int)) (k Int)) Int (select l k))
;@heap postOut LOG_postOut
(define-fun postErr ((l (Array Int Int)) (k Int)) Int (select l k))
;@heap postErr LOG_postErr
(define-fun postFlag ((l (Array Int Bool)) (k Int)) Bool (select l k))
;@heap postFlag LOG_postFlag
(define-fun sigT ((l (Array Int Int)) (k Int)) Int (select l k))
;@heap sigT LOG_sigT
(define-fun evSigLine ((l (Array Int Int)) (k Int)) Int (select l k))
;@heap evSigLine LOG_sigLine
(define-fun evSigValue ((l (Array Int Val)) (k Int)) Val (select l k))
;@heap evSigValue LOG_sigVal
(define-fun sigOf ((ht (Array Int Int)) (s Int)) Int (select ht s))
;@heap sigOf H_interpreter_ControlFlowSignal_Type
(define-fun sigLine ((ht (Array Int Int)) (s Int)) Int (select ht s))
;@heap sigLine H_interpreter_ControlFlowSignal_LineNumber
(define-fun sigValue ((ht (Array Int Val)) (s Int)) Val (select ht s))
;@heap sigValue H_interpreter_ControlFlowSignal_Value
(define-fun evalAt ((kind (Array Int Int)) (child (Array Int Val)) (env (Array Int Int)) (repl (Array Int Bool)) (k Int) (c Val) (e Int) (r Bool)) Bool (and (= (select kind k) 1) (= (select child k) c) (= (select env k) e) (= (select repl k) r)))
;@heap evalAt LOG_kind LOG_child LOG_env LOG_repl
(define-fun invokeAt ((kind (Array Int Int)) (child (Array Int Val)) (k Int) (c Val)) Bool (and (= (select kind k) 2) (= (select child k) c)))
;@heap invokeAt LOG_kind LOG_child
(define-fun stateIsPre ((cMD (Array Int (Array Str Bool))) (cMV (Array Int (Array Str Val))) (cMC (Array Int Int)) (cEV (Array Int (Array Int Val))) (cOut Int) (cErr Int) (cFlag Bool) (lMD (Array Int (Array Int (Array Str Bool)))) (lMV (Array Int (Array Int (Array Str Val)))) (lMC (Array Int (Array Int Int))) (lEV (Array Int (Array Int (Array Int Val)))) (lOut (Array Int Int)) (lErr (Array Int Int)) (lFlag (Array Int Bool)) (k Int)) Bool (and (= cMD (select lMD k)) (= cMV (select lMV k)) (= cMC (select lMC k)) (= cEV (select lEV k)) (= cOut (select lOut k)) (= cErr (select lErr k)) (= cFlag (select lFlag k))))
;@heap stateIsPre MD_Str_Val MV_Str_Val MC_Str_Val E_Val G_io_OutN G_io_ErrN G_utils_HadRuntimeError LOG_preMD LOG_preMV LOG_preMC LOG_preEV LOG_preOut LOG_preErr LOG_preFlag
(define-fun stateIsPost ((cMD (Array Int (Array Str Bool))) (cMV (Array Int (Array Str Val))) (cMC (Array Int Int)) (cEV (Array Int (Array Int Val))) (cOut Int) (cErr Int) (cFlag Bool) (lMD (Array Int (Array Int (Array Str Bool)))) (lMV (Array Int (Array Int (Array Str Val)))) (lMC (Array Int (Array Int Int))) (lEV (Array Int (Array Int (Array Int Val)))) (lOut (Array Int Int)) (lErr (Array Int Int)) (lFlag (Array Int Bool)) (k Int)) Bool (and (= cMD (select lMD k)) (= cMV (select lMV k)) (= cMC (select lMC k)) (= cEV (select lEV k)) (= cOut (select lOut k)) (= cErr (select lErr k)) (= cFlag (select lFlag k))))
;@heap stateIsPost MD_Str_Val MV_Str_Val MC_Str_Val E_Val G_io_OutN G_io_ErrN G_utils_HadRuntimeError LOG_postMD LOG_postMV LOG_postMC LOG_postEV LOG_postOut LOG_postErr LOG_postFlag
(define-fun follows ((aMD (Array Int (Array Int (Array Str Bool)))) (aMV (Array Int (Array Int (Array Str Val)))) (aMC (Array Int (Array Int Int))) (aEV (Array Int (Array Int (Array Int Val)))) (aOut (Array Int Int)) (aErr (Array Int Int)) (aFlag (Array Int Bool)) (bMD (Array Int (Array Int (Array Str Bool)))) (bMV (Array Int (Array Int (Array Str Val)))) (bMC (Array Int (Array Int Int))) (bEV (Array Int (Array Int (Array Int Val)))) (bOut (Array Int Int)) (bErr (Array Int Int)) (bFlag (Array Int Bool)) (k Int)) Bool (and (= (select aMD k) (select bMD (- k 1))) (= (select aMV k) (select bMV (- k 1))) (= (select aMC k) (select bMC (- k 1))) (= (select aEV k) (select bEV (- k 1))) (= (select aOut k) (select bOut (- k 1))) (= (select aErr k) (select bErr (- k 1))) (= (select aFlag k) (select bFlag (- k 1)))))
;@heap follows LOG_preMD LOG_preMV LOG_preMC LOG_preEV LOG_preOut LOG_preErr LOG_preFlag LOG_postMD LOG_postMV LOG_postMC LOG_postEV LOG_postOut LOG_postErr LOG_postFlag
(define-fun heapIsPre ((cMD (Array Int (Array Str Bool))) (cMV (Array Int (Array Str Val))) (cMC (Array Int Int)) (cEV (Array Int (Array Int Val))) (lMD (Array Int (Array Int (Array Str Bool)))) (lMV (Array Int (Array Int (Array Str Val)))) (lMC (Array Int (Array Int Int))) (lEV (Array Int (Array Int (Array Int Val)))) (k Int)) Bool (and (= cMD (select lMD k)) (= cMV (select lMV k)) (= cMC (select lMC k)) (= cEV (select lEV k))))
;@heap heapIsPre MD_Str_Val MV_Str_Val MC_Str_Val E_Val LOG_preMD LOG_preMV LOG_preMC LOG_preEV
(define-fun heapIsPost ((cMD (Array Int (Array Str Bool))) (cMV (Array Int (Array Str Val))) (cMC (Array Int Int)) (cEV (Array Int (Array Int Val))) (lMD (Array Int (Array Int (Array Str Bool)))) (lMV (Array Int (Array Int (Array Str Val)))) (lMC (Array Int (Array Int Int))) (lEV (Array Int (Array Int (Array Int Val)))) (k Int)) Bool (and (= cMD (select lMD k)) (= cMV (select lMV k)) (= cMC (select lMC k)) (= cEV (select lEV k))))
;@heap heapIsPost MD_Str_Val MV_Str_Val MC_Str_Val E_Val LOG_postMD LOG_postMV LOG_postMC LOG_postEV
(define-fun retSig ((n Int) (lsig (Array Int Int)) (cMD (Array Int (Array Str Bool))) (cMV (Array Int (Array Str Val))) (cMC (Array Int Int)) (cEV (Array Int (Array Int Val))) (cOut Int) (cErr Int) (cFlag Bool) (lMD (Array Int (Array Int (Array Str Bool)))) (lMV (Array Int (Array Int (Array Str Val)))) (lMC (Array Int (Array Int Int))) (lEV (Array Int (Array Int (Array Int Val)))) (lOut (Array Int Int)) (lErr (Array Int Int)) (lFlag (Array Int Bool)) (k Int) (r1 Int)) Bool (and (= n (+ k 1)) (= r1 (select lsig k)) (= cMD (select lMD k)) (= cMV (select lMV k)) (= cMC (select lMC k)) (= cEV (select lEV k)) (= cOut (select lOut k)) (= cErr (select lErr k)) (= cFlag (select lFlag k))))
;@heap retSig LOG_N LOG_sig MD_Str_Val MV_Str_Val MC_Str_Val E_Val G_io_OutN G_io_ErrN G_utils_HadRuntimeError LOG_postMD LOG_postMV LOG_postMC LOG_postEV LOG_postOut LOG_postErr LOG_postFlag
(define-fun retPlain ((n Int) (ht (Array Int Int)) (cMD (Array Int (Array Str Bool))) (cMV (Array Int (Array Str Val))) (cMC (Array Int Int)) (cEV (Array Int (Array Int Val))) (cOut Int) (cErr Int) (cFlag Bool) (lMD (Array Int (Array Int (Array Str Bool)))) (lMV (Array Int (Array Int (Array Str Val)))) (lMC (Array Int (Array Int Int))) (lEV (Array Int (Array Int (Array Int Val)))) (lOut (Array Int Int)) (lErr (Array Int Int)) (lFlag (Array Int Bool)) (k Int) (r1 Int)) Bool (and (= n (+ k 1)) (= (select ht r1) 0) (= cMD (select lMD k)) (= cMV (select lMV k)) (= cMC (select lMC k)) (= cEV (select lEV k)) (= cOut (select lOut k)) (= cErr (select lErr k)) (= cFlag (select lFlag k))))
;@heap retPlain LOG_N H_interpreter_ControlFlowSignal_Type MD_Str_Val MV_Str_Val MC_Str_Val E_Val G_io_OutN G_io_ErrN G_utils_HadRuntimeError LOG_postMD LOG_postMV LOG_postMC LOG_postEV LOG_postOut LOG_postErr LOG_postFlag
(define-fun live ((lsigt (Array Int Int)) (lflag (Array Int Bool)) (k Int)) Bool (and (= (select lsigt k) 0) (not (select lflag k))))
;@heap live LOG_sigT LOG_postFlag
(define-fun errAfter ((cMD (Array Int (Array Str Bool))) (cMV (Array Int (Array Str Val))) (cMC (Array Int Int)) (cEV (Array Int (Array Int Val))) (cOut Int) (cErr Int) (cFlag Bool) (stderr (Array Int Str)) (lMD (Array Int (Array Int (Array Str Bool)))) (lMV (Array Int (Array Int (Array Str Val)))) (lMC (Array Int (Array Int Int))) (lEV (Array Int (Array Int (Array Int Val)))) (lOut (Array Int Int)) (lErr (Array Int Int)) (lFlag (Array Int Bool)) (k Int) (line Int)) Bool (and cFlag (= cErr (+ (select lErr k) 1)) (= (diagLine (select stderr (select lErr k))) line) (= cOut (select lOut k)) (= cMD (select lMD k)) (= cMV (select lMV k)) (= cMC (select lMC k)) (= cEV (select lEV k))))
;@heap errAfter MD_Str_Val MV_Str_Val MC_Str_Val E_Val G_io_OutN G_io_ErrN G_utils_HadRuntimeError G_io_Err LOG_postMD LOG_postMV LOG_postMC LOG_postEV LOG_postOut LOG_postErr LOG_postFlag
(define-fun outAfter ((cMD (Array Int (Array Str Bool))) (cMV (Array Int (Array Str Val))) (cMC (Array Int Int)) (cEV (Array Int (Array Int Val))) (cOut Int) (cErr Int) (cFlag Bool) (stdout (Array Int Str)) (lMD (Array Int (Array Int (Array Str Bool)))) (lMV (Array Int (Array Int (Array Str Val)))) (lMC (Array Int (Array Int Int))) (lEV (Array Int (Array Int (Array Int Val)))) (lOut (Array Int Int)) (lErr (Array Int Int)) (lFlag (Array Int Bool)) (k Int) (text Str)) Bool (and (= cOut (+ (select lOut k) 1)) (= (select stdout (select lOut k)) text) (= cErr (select lErr k)) (= cFlag (select lFlag k)) (= cMD (select lMD k)) (= cMV (select lMV k)) (= cMC (select lMC k)) (= cEV (select lEV k))))
;@heap outAfter MD_Str_Val MV_Str_Val MC_Str_Val E_Val G_io_OutN G_io_ErrN G_utils_HadRuntimeError G_io_Out LOG_postMD LOG_postMV LOG_postMC LOG_postEV LOG_postOut LOG_postErr LOG_postFlag
; the state before the first statement of a block / loop / function body: the entry state plus one fresh, empty scope table t
(define-fun freshScopePre ((lMD (Array Int (Array Int (Array Str Bool)))) (lMV (Array Int (Array Int (Array Str Val)))) (lMC (Array Int (Array Int Int))) (lEV (Array Int (Array Int (Array Int Val)))) (lOut (Array Int Int)) (lErr (Array Int Int)) (lFlag (Array Int Bool))
  (k Int) (md (Array Int (Array Str Bool))) (mv (Array Int (Array Str Val))) (mc (Array Int Int)) (ev (Array Int (Array Int Val))) (out Int) (err Int) (flag Bool) (t Int)) Bool
  (and (= (select lMD k) (store md t emptyDom)) (= (select lMV k) mv) (= (select lMC k) (store mc t 0)) (= (select lEV k) ev) (= (select lOut k) out) (= (select lErr k) err) (= (select lFlag k) flag)))
;@heap freshScopePre LOG_preMD LOG_preMV LOG_preMC LOG_preEV LOG_preOut LOG_preErr LOG_preFlag
(define-fun curOut ((x Int)) Int x)
;@heap curOut G_io_OutN
(define-fun curErr ((x Int)) Int x)
;@heap curErr G_io_ErrN
(define-fun curFlag ((x Bool)) Bool x)
;@heap curFlag G_utils_HadRuntimeError
; variants that ignore the array heap (constructs that build a private argument/element list between events)
(define-fun followsX ((aMD (Array Int (Array Int (Array Str Bool)))) (aMV (Array Int (Array Int (Array Str Val)))) (aMC (Array Int (Array Int Int))) (aOut (Array Int Int)) (aErr (Array Int Int)) (aFlag (Array Int Bool)) (bMD (Array Int (Array Int (Array Str Bool)))) (bMV (Array Int (Array Int (Array Str Val)))) (bMC (Array Int (Array Int Int))) (bOut (Array Int Int)) (bErr (Array Int Int)) (bFlag (Array Int Bool)) (k Int)) Bool (and (= (select aMD k) (select bMD (- k 1))) (= (select aMV k) (select bMV (- k 1))) (= (select aMC k) (select bMC (- k 1))) (= (select aOut k) (select bOut (- k 1))) (= (select aErr k) (select bErr (- k 1))) (= (select aFlag k) (select bFlag (- k 1)))))
;@heap followsX LOG_preMD LOG_preMV LOG_preMC LOG_preOut LOG_preErr LOG_preFlag LOG_postMD LOG_postMV LOG_postMC LOG_postOut LOG_postErr LOG_postFlag
(define-fun stateIsPostX ((cMD (Array Int (Array Str Bool))) (cMV (Array Int (Array Str Val))) (cMC (Array Int Int)) (cOut Int) (cErr Int) (cFlag Bool) (lMD (Array Int (Array Int (Array Str Bool)))) (lMV (Array Int (Array Int (Array Str Val)))) (lMC (Array Int (Array Int Int))) (lOut (Array Int Int)) (lErr (Array Int Int)) (lFlag (Array Int Bool)) (k Int)) Bool (and (= cMD (select lMD k)) (= cMV (select lMV k)) (= cMC (select lMC k)) (= cOut (select lOut k)) (= cErr (select lErr k)) (= cFlag (select lFlag k))))
;@heap stateIsPostX MD_Str_Val MV_Str_Val MC_Str_Val G_io_OutN G_io_ErrN G_utils_HadRuntimeError LOG_postMD LOG_postMV LOG_postMC LOG_postOut LOG_postErr LOG_postFlag
; variants that ignore the object heap (an object literal fills its private map between events)
(define-fun followsY ((aEV (Array Int (Array Int (Array Int Val)))) (aOut (Array Int Int)) (aErr (Array Int Int)) (aFlag (Array Int Bool)) (bEV (Array Int (Array Int (Array Int Val)))) (bOut (Array Int Int)) (bErr (Array Int Int)) (bFlag (Array Int Bool)) (k Int)) Bool (and (= (select aEV k) (select bEV (- k 1))) (= (select aOut k) (select bOut (- k 1))) (= (select aErr k) (select bErr (- k 1))) (= (select aFlag k) (select bFlag (- k 1)))))
;@heap followsY LOG_preEV LOG_preOut LOG_preErr LOG_preFlag LOG_postEV LOG_postOut LOG_postErr LOG_postFlag
(define-fun stateIsPostY ((cEV (Array Int (Array Int Val))) (cOut Int) (cErr Int) (cFlag Bool) (lEV (Array Int (Array Int (Array Int Val)))) (lOut (Array Int Int)) (lErr (Array Int Int)) (lFlag (Array Int Bool)) (k Int)) Bool (and (= cEV (select lEV k)) (= cOut (select lOut k)) (= cErr (select lErr k)) (= cFlag (select lFlag k))))
;@heap stateIsPostY E_Val G_io_OutN G_io_ErrN G_utils_HadRuntimeError LOG_postEV LOG_postOut LOG_postErr LOG_postFlag
; evArg(k, j): the j-th argument handed over at invoke event k, read from the array heap as it was when the callee was entered
(define-fun evArg ((la (Array Int Slice)) (lev (Array Int (Array Int (Array Int Val)))) (k Int) (j Int)) Val (select (select (select lev k) (s.ref (select la k))) (+ (s.off (select la k)) j)))
;@heap evArg LOG_args LOG_preEV
