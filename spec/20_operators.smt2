;@opaque binOK unOK
; C02 operator semantics.  binOK(op, l, r, res, err): `res`/`err` is an admissible outcome of `l op r`.
; "open" rows (numeric-looking strings under arithmetic/comparison/bitwise operators) admit every outcome: the statement is silent.
(define-fun strInvolved ((l Val) (r Val)) Bool (or (and (isStr l) (or (isStr r) (isNum r))) (and (isStr r) (isNum l))))
(define-fun bothNum ((l Val) (r Val)) Bool (and (isNum l) (isNum r)))
(define-fun eqSpecDefined ((l Val) (r Val)) Bool (or (bothNum l r) (and (isStr l) (isStr r)) (and (isBool l) (isBool r)) (and (isNil l) (isNil r))))
(define-fun sameKind ((l Val) (r Val)) Bool (or (bothNum l r) (and (isStr l) (isStr r)) (and (isBool l) (isBool r)) (and (isNil l) (isNil r)) (and (isArr l) (isArr r)) (and (isObj l) (isObj r)) (and (callable l) (callable r))))
; equality: numbers by value, strings by content, different types unequal, reflexive on every non-NaN value
(define-fun eqOK ((l Val) (r Val) (e Bool)) Bool (and
  (=> (bothNum l r) (= e (fp.eq (vf64 l) (vf64 r))))
  (=> (and (isStr l) (isStr r)) (= e (= (vstr l) (vstr r))))
  (=> (and (isBool l) (isBool r)) (= e (= (vbool l) (vbool r))))
  (=> (and (isNil l) (isNil r)) e)
  (=> (not (sameKind l r)) (not e))
  (=> (and (= l r) (not (and (isNum l) (fp.isNaN (vf64 l))))) e)))
(define-fun arithOK ((op Int) (a F64) (b F64) (res Val) (err Bool)) Bool
  (ite (= op K_token_MINUS) (and (not err) (= res (VF64 (fp.sub RNE a b))))
  (ite (= op K_token_STAR) (and (not err) (= res (VF64 (fp.mul RNE a b))))
  (ite (= op K_token_SLASH) (ite (fp.isZero b) err (and (not err) (= res (VF64 (fp.div RNE a b)))))
  (ite (= op K_token_MODULO) (ite (fp.isZero b) err (and (not err) (= res (VF64 (ext.mod a b)))))
  (ite (= op K_token_POWER) (and (not err) (= res (VF64 (ext.pow a b))))
  (ite (= op K_token_GREATER) (and (not err) (= res (VBool (fp.gt a b))))
  (ite (= op K_token_GREATER_EQUAL) (and (not err) (= res (VBool (fp.geq a b))))
  (ite (= op K_token_LESS) (and (not err) (= res (VBool (fp.lt a b))))
  (ite (= op K_token_LESS_EQUAL) (and (not err) (= res (VBool (fp.leq a b))))
  true))))))))))
(define-fun isArithOp ((op Int)) Bool (or (= op K_token_MINUS) (= op K_token_STAR) (= op K_token_SLASH) (= op K_token_MODULO) (= op K_token_POWER)
  (= op K_token_GREATER) (= op K_token_GREATER_EQUAL) (= op K_token_LESS) (= op K_token_LESS_EQUAL)))
(define-fun isBitOp ((op Int)) Bool (or (= op K_token_AND) (= op K_token_OR) (= op K_token_XOR) (= op K_token_LEFT_SHIFT) (= op K_token_RIGHT_SHIFT)))
(define-fun bitOK ((op Int) (a BV64) (b BV64) (res Val) (err Bool)) Bool
  (ite (= op K_token_AND) (and (not err) (= res (VF64 (ofInt (bvand a b)))))
  (ite (= op K_token_OR) (and (not err) (= res (VF64 (ofInt (bvor a b)))))
  (ite (= op K_token_XOR) (and (not err) (= res (VF64 (ofInt (bvxor a b)))))
  (ite (= op K_token_LEFT_SHIFT) (ite (bvslt b #x0000000000000000) err (and (not err) (= res (VF64 (ofInt (bvshl a b))))))
  (ite (= op K_token_RIGHT_SHIFT) (ite (bvslt b #x0000000000000000) err (and (not err) (= res (VF64 (ofInt (bvashr a b))))))
  true))))))
(define-fun plusOK ((l Val) (r Val) (res Val) (err Bool)) Bool
  (ite (bothNum l r) (and (not err) (= res (VF64 (fp.add RNE (vf64 l) (vf64 r)))))
  (ite (and (isStr l) (isStr r)) (and (not err) (= res (VStr (str.cat (vstr l) (vstr r)))))
  (ite (and (isStr l) (isNum r)) (and (not err) (= res (VStr (str.cat (vstr l) (numText (vf64 r))))))
  (ite (and (isNum l) (isStr r)) (and (not err) (= res (VStr (str.cat (numText (vf64 l)) (vstr r)))))
  err)))))
; numeric strings: an arithmetic, comparison or bitwise operand that is a string is coerced exactly like a numeric literal of the
; same text (both digit scripts, through the one transliteration); a string that does not coerce is an error.  Division by a
; string worth zero is division by zero.
(define-fun numLike ((v Val)) Bool (or (isNum v) (isStr v)))
(define-fun coerces ((v Val)) Bool (or (isNum v) (and (isStr v) (ext.parsefloat.ok (trStr (vstr v))))))
(define-fun numOf ((v Val)) F64 (ite (isNum v) (vf64 v) (ext.parsefloat.val (trStr (vstr v)))))
(define-fun binOK ((op Int) (l Val) (r Val) (res Val) (err Bool)) Bool
  (ite (= op K_token_PLUS) (plusOK l r res err)
  (ite (= op K_token_EQUAL_EQUAL) (and (not err) (isBool res) (eqOK l r (vbool res)))
  (ite (= op K_token_BANG_EQUAL) (and (not err) (isBool res) (eqOK l r (not (vbool res))))
  (ite (isArithOp op) (ite (and (numLike l) (numLike r) (coerces l) (coerces r)) (arithOK op (numOf l) (numOf r) res err) err)
  (ite (isBitOp op) (ite (and (numLike l) (numLike r) (coerces l) (coerces r) (intOK (numOf l)) (intOK (numOf r))) (bitOK op (intOf (numOf l)) (intOf (numOf r)) res err) err)
  err))))))
; unary operators
(define-fun unOK ((op Int) (v Val) (res Val) (err Bool)) Bool
  (ite (= op K_token_BANG) (and (not err) (= res (VBool (not (truthySpec v)))))
  (ite (= op K_token_MINUS) (ite (and (numLike v) (coerces v)) (and (not err) (= res (VF64 (fp.neg (numOf v))))) err)
  (ite (= op K_token_NOT) (ite (and (numLike v) (coerces v) (intOK (numOf v))) (and (not err) (= res (VF64 (ofInt (bvnot (intOf (numOf v))))))) err)
  err))))
