package main

// SMT-LIB text helpers: sorts, terms, prelude.

import (
	"fmt"
	"go/types"
	"math"
	"math/big"
	"sort"
	"strings"
)

// Sort is the SMT-LIB text of a sort.
type Sort string

const (
	SBool  Sort = "Bool"
	SInt   Sort = "Int"
	SBV64  Sort = "BV64"
	SF64   Sort = "F64"
	SStr   Sort = "Str"
	SVal   Sort = "Val"
	SSlice Sort = "Slice"
)

func arrSort(idx, elem Sort) Sort { return Sort("(Array " + string(idx) + " " + string(elem) + ")") }

// Term is an SMT term with its sort.
type Term struct {
	S    string
	Sort Sort
}

func (t Term) String() string { return t.S }

func tBool(b bool) Term {
	if b {
		return Term{"true", SBool}
	}
	return Term{"false", SBool}
}

func tInt(i int64) Term {
	if i < 0 {
		return Term{fmt.Sprintf("(- %d)", -i), SInt}
	}
	return Term{fmt.Sprintf("%d", i), SInt}
}

func tBigInt(i *big.Int) Term {
	if i.Sign() < 0 {
		return Term{"(- " + new(big.Int).Neg(i).String() + ")", SInt}
	}
	return Term{i.String(), SInt}
}

func tBV64(u uint64) Term { return Term{fmt.Sprintf("#x%016x", u), SBV64} }

func tF64(f float64) Term {
	b := math.Float64bits(f)
	sign := b >> 63
	exp := (b >> 52) & 0x7ff
	man := b & ((1 << 52) - 1)
	return Term{fmt.Sprintf("(fp #b%b #b%011b #b%052b)", sign, exp, man), SF64}
}

func app(op string, args ...Term) string {
	var sb strings.Builder
	sb.WriteString("(")
	sb.WriteString(op)
	for _, a := range args {
		sb.WriteString(" ")
		sb.WriteString(a.S)
	}
	sb.WriteString(")")
	return sb.String()
}

func sapp(op string, args ...string) string {
	return "(" + op + " " + strings.Join(args, " ") + ")"
}

func tNot(a Term) Term {
	if a.S == "true" {
		return tBool(false)
	}
	if a.S == "false" {
		return tBool(true)
	}
	return Term{"(not " + a.S + ")", SBool}
}

func tAnd(as ...Term) Term {
	var parts []string
	for _, a := range as {
		if a.S == "true" {
			continue
		}
		if a.S == "false" {
			return tBool(false)
		}
		parts = append(parts, a.S)
	}
	if len(parts) == 0 {
		return tBool(true)
	}
	if len(parts) == 1 {
		return Term{parts[0], SBool}
	}
	return Term{"(and " + strings.Join(parts, " ") + ")", SBool}
}

func tOr(as ...Term) Term {
	var parts []string
	for _, a := range as {
		if a.S == "false" {
			continue
		}
		if a.S == "true" {
			return tBool(true)
		}
		parts = append(parts, a.S)
	}
	if len(parts) == 0 {
		return tBool(false)
	}
	if len(parts) == 1 {
		return Term{parts[0], SBool}
	}
	return Term{"(or " + strings.Join(parts, " ") + ")", SBool}
}

func tImp(a, b Term) Term {
	if a.S == "true" {
		return b
	}
	if b.S == "true" {
		return tBool(true)
	}
	return Term{"(=> " + a.S + " " + b.S + ")", SBool}
}

func tEq(a, b Term) Term {
	if a.Sort == SF64 && b.Sort == SF64 {
		// structural (bit-level up to NaN) equality; Go == on floats is fp.eq and is produced explicitly
		return Term{app("=", a, b), SBool}
	}
	return Term{app("=", a, b), SBool}
}

func tIte(c, a, b Term) Term {
	if c.S == "true" {
		return a
	}
	if c.S == "false" {
		return b
	}
	if a.S == b.S {
		return a
	}
	return Term{app("ite", c, a, b), a.Sort}
}

func tSelect(arr, idx Term) Term {
	s := string(arr.Sort)
	// (Array I E) -> E
	es := arrayElemSort(Sort(s))
	return Term{app("select", arr, idx), es}
}

func tStore(arr, idx, v Term) Term {
	return Term{app("store", arr, idx, v), arr.Sort}
}

// arrayElemSort parses "(Array I E)" and returns E.
func arrayElemSort(s Sort) Sort {
	parts := splitTop(strings.TrimSuffix(strings.TrimPrefix(string(s), "("), ")"))
	if len(parts) != 3 || parts[0] != "Array" {
		panic("not an array sort: " + string(s))
	}
	return Sort(parts[2])
}

func arrayIdxSort(s Sort) Sort {
	parts := splitTop(strings.TrimSuffix(strings.TrimPrefix(string(s), "("), ")"))
	if len(parts) != 3 || parts[0] != "Array" {
		panic("not an array sort: " + string(s))
	}
	return Sort(parts[1])
}

// splitTop splits an s-expression body at top-level whitespace.
func splitTop(s string) []string {
	var out []string
	depth := 0
	start := -1
	for i, c := range s {
		switch {
		case c == '(':
			if depth == 0 && start < 0 {
				start = i
			}
			depth++
		case c == ')':
			depth--
		case c == ' ' || c == '\n' || c == '\t':
			if depth == 0 && start >= 0 {
				out = append(out, s[start:i])
				start = -1
			}
		default:
			if start < 0 {
				start = i
			}
		}
	}
	if start >= 0 {
		out = append(out, s[start:])
	}
	return out
}

// Slice helpers.
func slRef(s Term) Term { return Term{"(s.ref " + s.S + ")", SInt} }
func slOff(s Term) Term { return Term{"(s.off " + s.S + ")", SInt} }
func slLen(s Term) Term { return Term{"(s.len " + s.S + ")", SInt} }
func slCap(s Term) Term { return Term{"(s.cap " + s.S + ")", SInt} }
func mkSlice(ref, off, ln, cp Term) Term {
	return Term{app("mkSlice", ref, off, ln, cp), SSlice}
}

var nilSlice = Term{"(mkSlice 0 0 0 0)", SSlice}

func tAdd(a, b Term) Term {
	if b.S == "0" {
		return a
	}
	if a.S == "0" {
		return b
	}
	return Term{app("+", a, b), SInt}
}
func tSub(a, b Term) Term {
	if b.S == "0" {
		return a
	}
	return Term{app("-", a, b), SInt}
}
func tLe(a, b Term) Term { return Term{app("<=", a, b), SBool} }
func tLt(a, b Term) Term { return Term{app("<", a, b), SBool} }

// ---------------------------------------------------------------------
// Sort registry: Go types -> SMT sorts, struct datatypes.

type StructInfo struct {
	Name      string // SMT datatype name
	Ctor      string
	Fields    []string // selector names
	FSorts    []Sort
	GoType    *types.Struct
	Named     string // short go name pkg.Type
	namedType *types.Named
}

type Sorts struct {
	structs     map[string]*StructInfo // by SMT name
	structOrder []string
	tags        map[string]int // dynamic type string -> tag id
	tagNames    []string
	repoPrefix  string
	zeroArrays  map[Sort]string
	zeroOrder   []Sort
}

func newSorts() *Sorts {
	return &Sorts{structs: map[string]*StructInfo{}, tags: map[string]int{}, repoPrefix: "github.com/ah-naf/borno"}
}

func shortPkg(path string) string {
	if i := strings.LastIndex(path, "/"); i >= 0 {
		return path[i+1:]
	}
	return path
}

func (so *Sorts) shortTypeName(n *types.Named) string {
	obj := n.Obj()
	if obj.Pkg() == nil {
		return obj.Name()
	}
	return shortPkg(obj.Pkg().Path()) + "." + obj.Name()
}

func sanitize(s string) string {
	var sb strings.Builder
	for _, c := range s {
		switch {
		case c >= 'a' && c <= 'z', c >= 'A' && c <= 'Z', c >= '0' && c <= '9', c == '_':
			sb.WriteRune(c)
		default:
			sb.WriteRune('_')
		}
	}
	return sb.String()
}

func (so *Sorts) isRepoType(n *types.Named) bool {
	return n.Obj().Pkg() != nil && strings.HasPrefix(n.Obj().Pkg().Path(), so.repoPrefix)
}

// sortOf maps a Go type to an SMT sort.
func (so *Sorts) sortOf(t types.Type) Sort {
	switch u := t.(type) {
	case *types.Named:
		if st, ok := u.Underlying().(*types.Struct); ok {
			if !so.isRepoType(u) {
				return SInt // opaque external struct (only behind pointers / as cells)
			}
			return so.structSort(u, st)
		}
		return so.sortOf(u.Underlying())
	case *types.Alias:
		return so.sortOf(types.Unalias(u))
	case *types.Basic:
		switch {
		case u.Kind() == types.UntypedNil:
			return SVal
		case u.Info()&types.IsBoolean != 0:
			return SBool
		case u.Kind() == types.Int64:
			return SBV64
		case u.Info()&types.IsInteger != 0:
			return SInt
		case u.Info()&types.IsFloat != 0:
			return SF64
		case u.Info()&types.IsString != 0:
			return SStr
		case u.Kind() == types.UnsafePointer:
			return SInt
		}
	case *types.Pointer:
		return SInt
	case *types.Slice:
		return SSlice
	case *types.Map:
		return SInt
	case *types.Interface:
		return SVal
	case *types.Signature:
		return SInt
	case *types.Struct:
		if u.NumFields() == 0 {
			return SInt
		}
	case *types.Array:
		return SInt // only behind pointers (backing-array refs)
	case *types.Chan:
		return SInt
	case *types.Tuple:
		return "TUPLE"
	}
	panic(fmt.Sprintf("sortOf: unsupported type %s (%T)", t, t))
}

func (so *Sorts) structSort(n *types.Named, st *types.Struct) Sort {
	name := "S_" + sanitize(so.shortTypeName(n))
	if _, ok := so.structs[name]; ok {
		return Sort(name)
	}
	info := &StructInfo{Name: name, Ctor: "mk_" + name, GoType: st, Named: so.shortTypeName(n), namedType: n}
	so.structs[name] = info // before recursion (no recursive by-value structs in Go)
	for i := 0; i < st.NumFields(); i++ {
		f := st.Field(i)
		info.Fields = append(info.Fields, name+"_"+sanitize(f.Name()))
		info.FSorts = append(info.FSorts, so.sortOf(f.Type()))
	}
	so.structOrder = append(so.structOrder, name)
	return Sort(name)
}

func (so *Sorts) structInfo(s Sort) *StructInfo { return so.structs[string(s)] }

// elemKey names the heap component of slice/array elements of Go type t: named interface types (ast.Expr, ast.Stmt)
// get their own component, so that Borno arrays ([]interface{}) can carry their own cell invariant.
func (so *Sorts) elemKey(t types.Type) string {
	if n, ok := t.(*types.Named); ok {
		if _, isIface := n.Underlying().(*types.Interface); isIface {
			return sanitize(so.shortTypeName(n))
		}
	}
	return sanitize(string(so.sortOf(t)))
}

// tagOf returns a stable small integer for a dynamic type.
func (so *Sorts) tagOf(t types.Type) int {
	key := types.TypeString(t, nil)
	if id, ok := so.tags[key]; ok {
		return id
	}
	id := len(so.tagNames) + 1
	so.tags[key] = id
	so.tagNames = append(so.tagNames, key)
	return id
}

// zero value of a Go type.
func (so *Sorts) zero(t types.Type) Term {
	s := so.sortOf(t)
	return so.zeroOfSort(s)
}

func (so *Sorts) zeroOfSort(s Sort) Term {
	switch s {
	case SBool:
		return tBool(false)
	case SInt:
		return tInt(0)
	case SBV64:
		return tBV64(0)
	case SF64:
		return tF64(0)
	case SStr:
		return Term{"str_empty", SStr}
	case SVal:
		return Term{"VNil", SVal}
	case SSlice:
		return nilSlice
	}
	if info := so.structInfo(s); info != nil {
		var args []Term
		for _, fs := range info.FSorts {
			args = append(args, so.zeroOfSort(fs))
		}
		if len(args) == 0 {
			return Term{info.Ctor, s}
		}
		return Term{app(info.Ctor, args...), s}
	}
	if strings.HasPrefix(string(s), "(Array ") {
		z := so.zeroOfSort(arrayElemSort(s))
		if !strings.Contains(z.S, "str_empty") {
			return Term{"((as const " + string(s) + ") " + z.S + ")", s}
		}
		// cvc5 only accepts values in constant arrays: use a named all-zero array with a defining axiom
		if so.zeroArrays == nil {
			so.zeroArrays = map[Sort]string{}
		}
		name, ok := so.zeroArrays[s]
		if !ok {
			name = fmt.Sprintf("zero_row_%d", len(so.zeroArrays)+1)
			so.zeroArrays[s] = name
			so.zeroOrder = append(so.zeroOrder, s)
		}
		return Term{name, s}
	}
	panic("zeroOfSort: " + string(s))
}

// structDecls renders declare-datatypes for all registered structs in dependency order.
func (so *Sorts) structDecls() string {
	var sb strings.Builder
	for _, name := range so.structOrder {
		info := so.structs[name]
		sb.WriteString("(declare-datatypes ((" + name + " 0)) (((" + info.Ctor)
		for i, f := range info.Fields {
			sb.WriteString(" (" + f + " " + string(info.FSorts[i]) + ")")
		}
		sb.WriteString("))))\n")
	}
	return sb.String()
}

const basePrelude = `(define-sort F64 () (_ FloatingPoint 11 53))
(define-sort BV64 () (_ BitVec 64))
(declare-sort Str 0)
(declare-datatypes ((Slice 0)) (((mkSlice (s.ref Int) (s.off Int) (s.len Int) (s.cap Int)))))
(declare-datatypes ((Val 0)) (((VNil) (VBool (vbool Bool)) (VF64 (vf64 F64)) (VI64 (vi64 BV64)) (VInt (vint Int)) (VStr (vstr Str)) (VRunes (vrunes Slice)) (VArr (varr Slice)) (VObj (vobj Int)) (VPtr (vptag Int) (vpref Int)) (VStruct (vstag Int)) (VOther (votag Int) (voval Int)))))
(declare-const str_empty Str)
(declare-fun cplen (Str) Int)
(declare-fun cp (Str Int) Int)
(declare-fun str.cat (Str Str) Str)
(declare-fun s2i (BV64) Int)
(declare-fun i2s (Int) BV64)
(define-fun wfSlice ((s Slice)) Bool (and (<= 0 (s.ref s)) (<= 0 (s.off s)) (<= 0 (s.len s)) (<= (s.len s) (s.cap s)) (< (+ (s.off s) (s.cap s)) 4611686018427387904) (=> (= (s.ref s) 0) (= (s.cap s) 0))))
(define-fun wfVal ((v Val)) Bool (and (=> ((_ is VRunes) v) (wfSlice (vrunes v))) (=> ((_ is VArr) v) (wfSlice (varr v))) (=> ((_ is VObj) v) (<= 0 (vobj v))) (=> ((_ is VPtr) v) (and (< 0 (vptag v)) (<= 0 (vpref v)))) (=> ((_ is VStruct) v) (< 0 (vstag v))) (=> ((_ is VOther) v) (< 0 (votag v))) (=> ((_ is VInt) v) (and (<= (- 9223372036854775808) (vint v)) (< (vint v) 9223372036854775808)))))
(assert (= (cplen str_empty) 0))
(assert (forall ((s Str)) (! (and (>= (cplen s) 0) (=> (= (cplen s) 0) (= s str_empty))) :pattern ((cplen s)))))
(assert (forall ((a Str) (b Str)) (! (= (cplen (str.cat a b)) (+ (cplen a) (cplen b))) :pattern ((str.cat a b)))))
`

// sortedKeys of a map[string]T
func sortedKeys[T any](m map[string]T) []string {
	ks := make([]string, 0, len(m))
	for k := range m {
		ks = append(ks, k)
	}
	sort.Strings(ks)
	return ks
}
