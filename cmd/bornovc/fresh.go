package main

// "Fresh-only" frames: a function (with everything it can call) that writes a slice/map component only through values
// allocated in the same invocation cannot change any array or map of that component that existed before the call.
// The analysis is syntactic over go/ssa and sound by construction; the resulting frame facts are added at every havoc.

import (
	"go/types"
	"strings"

	"golang.org/x/tools/go/ssa"
)

// isFreshLocal: v denotes a slice/map/array allocated by the current invocation (never loaded from the heap or received).
func isFreshLocal(v ssa.Value, seen map[ssa.Value]bool) bool {
	return isFreshLocalIn(v, seen, nil)
}

// isFreshLocalIn: the same, counting only allocations made inside the given blocks (nil: anywhere in the function).
// With the blocks of a loop this is "allocated by some iteration of the loop", as opposed to "before the loop".
func isFreshLocalIn(v ssa.Value, seen map[ssa.Value]bool, in map[*ssa.BasicBlock]bool) bool {
	if seen[v] {
		return true // cycles through phis: decided by the other operands
	}
	seen[v] = true
	switch x := v.(type) {
	case *ssa.Const:
		return x.Value == nil
	case *ssa.MakeSlice, *ssa.MakeMap, *ssa.Alloc:
		return in == nil || in[x.(ssa.Instruction).Block()]
	case *ssa.Slice:
		return isFreshLocalIn(x.X, seen, in)
	case *ssa.Phi:
		for _, e := range x.Edges {
			if !isFreshLocalIn(e, seen, in) {
				return false
			}
		}
		return true
	case *ssa.Call:
		if b, ok := x.Common().Value.(*ssa.Builtin); ok && b.Name() == "append" {
			return isFreshLocalIn(x.Common().Args[0], seen, in)
		}
		return false
	case *ssa.ChangeType:
		return isFreshLocalIn(x.X, seen, in)
	}
	return false
}

// dirtyDirect: components that fn itself writes through a value that is not fresh-local.
func (e *Engine) dirtyDirect(fn *ssa.Function) map[string]bool {
	return e.directWrites(fn.Blocks, func(v ssa.Value) bool { return isFreshLocal(v, map[ssa.Value]bool{}) })
}

// loopSemiFresh: components that the blocks of the loop write through a value that was not allocated inside the loop.
// Such a write may hit an array or map that this invocation allocated before the loop, so the loop's frame for these
// components may only speak about what existed when the function was entered (not about what existed at loop entry).
func (e *Engine) loopSemiFresh(li *loopInfo) map[string]bool {
	var bs []*ssa.BasicBlock
	for b := range li.blocks {
		bs = append(bs, b)
	}
	return e.directWrites(bs, func(v ssa.Value) bool { return isFreshLocalIn(v, map[ssa.Value]bool{}, li.blocks) })
}

// loopLateCtor: constructor-only field components that the loop stores into through an allocation made outside the loop.
func (e *Engine) loopLateCtor(li *loopInfo) map[string]bool {
	so := e.sorts
	d := map[string]bool{}
	for b := range li.blocks {
		for _, in := range b.Instrs {
			st, ok := in.(*ssa.Store)
			if !ok {
				continue
			}
			root := st.Addr
			var first *ssa.FieldAddr
			for {
				fa, ok := root.(*ssa.FieldAddr)
				if !ok {
					break
				}
				first = fa
				root = fa.X
			}
			al, isAlloc := root.(*ssa.Alloc)
			if !isAlloc || li.blocks[al.Block()] {
				continue
			}
			pt, ok := al.Type().Underlying().(*types.Pointer)
			if !ok {
				continue
			}
			n, ok := pt.Elem().(*types.Named)
			if !ok || !so.isRepoType(n) {
				continue
			}
			stt, ok := n.Underlying().(*types.Struct)
			if !ok {
				continue
			}
			if first != nil {
				d[fieldComp(so, n, stt, first.Field)] = true
			} else {
				for i := 0; i < stt.NumFields(); i++ {
					d[fieldComp(so, n, stt, i)] = true
				}
			}
		}
	}
	return d
}

// directWrites: components that the given blocks write through a value that is not fresh in the given sense.
func (e *Engine) directWrites(blocks []*ssa.BasicBlock, fresh func(ssa.Value) bool) map[string]bool {
	so := e.sorts
	d := map[string]bool{}
	for _, b := range blocks {
		for _, in := range b.Instrs {
			switch x := in.(type) {
			case *ssa.Store:
				// through an element address
				root := x.Addr
				for {
					if fa, ok := root.(*ssa.FieldAddr); ok {
						root = fa.X
						continue
					}
					break
				}
				if ia, ok := root.(*ssa.IndexAddr); ok {
					if !fresh(ia.X) {
						switch t := ia.X.Type().Underlying().(type) {
						case *types.Slice:
							d["E_"+so.elemKey(t.Elem())] = true
						case *types.Pointer:
							if arr, ok := t.Elem().Underlying().(*types.Array); ok {
								d[e.arrayComp(ia.X, arr.Elem())] = true
							}
						}
					}
				}
			case *ssa.MapUpdate:
				if !fresh(x.Map) {
					k := e.mapKeyOf(x.Map.Type().Underlying().(*types.Map))
					d["MD_"+k], d["MV_"+k], d["MC_"+k] = true, true, true
				}
			case ssa.CallInstruction:
				c := x.Common()
				if bi, ok := c.Value.(*ssa.Builtin); ok {
					switch bi.Name() {
					case "append":
						if call, ok := in.(*ssa.Call); ok && !fresh(c.Args[0]) {
							d["E_"+so.elemKey(call.Type().Underlying().(*types.Slice).Elem())] = true
						}
					case "copy":
						if !fresh(c.Args[0]) {
							d["E_"+so.elemKey(c.Args[0].Type().Underlying().(*types.Slice).Elem())] = true
						}
					case "delete":
						if !fresh(c.Args[0]) {
							k := e.mapKeyOf(c.Args[0].Type().Underlying().(*types.Map))
							d["MD_"+k], d["MC_"+k] = true, true
						}
					}
					continue
				}
				if c.IsInvoke() {
					continue
				}
				if callee := c.StaticCallee(); callee != nil && !e.isRepoFunc(callee) {
					for _, m := range stubMods(callee) {
						if strings.HasPrefix(m, "E_") || strings.HasPrefix(m, "MD_") || strings.HasPrefix(m, "MV_") || strings.HasPrefix(m, "MC_") {
							ok := true
							for _, a := range c.Args {
								switch a.Type().Underlying().(type) {
								case *types.Slice, *types.Map:
									if !fresh(a) {
										ok = false
									}
								}
							}
							if !ok {
								d[m] = true
							}
						}
					}
				}
			}
		}
	}
	return d
}

// dirtyOf: components that fn or anything it can call writes through a non-fresh value.
func (e *Engine) dirtyOf(fn *ssa.Function) map[string]bool {
	if d, ok := e.dirty[fn]; ok {
		return d
	}
	seen := map[*ssa.Function]bool{fn: true}
	stack := []*ssa.Function{fn}
	total := map[string]bool{}
	for len(stack) > 0 {
		g := stack[len(stack)-1]
		stack = stack[:len(stack)-1]
		for c := range e.dirtyDirect(g) {
			total[c] = true
		}
		for _, c := range e.calleesOf(g) {
			if !seen[c] {
				seen[c] = true
				stack = append(stack, c)
			}
		}
	}
	e.dirty[fn] = total
	return total
}

// loopDirty: the same for the body of a loop.
func (e *Engine) loopDirty(fn *ssa.Function, li *loopInfo) map[string]bool {
	total := map[string]bool{}
	// direct writes of the loop blocks: approximate by the whole function's direct writes (sound: a superset)
	for c := range e.dirtyDirect(fn) {
		total[c] = true
	}
	for b := range li.blocks {
		for _, in := range b.Instrs {
			call, ok := in.(ssa.CallInstruction)
			if !ok {
				continue
			}
			c := call.Common()
			if c.IsInvoke() {
				iface := c.Value.Type().Underlying().(*types.Interface)
				for _, dt := range e.dynTypes {
					if !types.Implements(dt, iface) {
						continue
					}
					ms := e.prog.MethodSets.MethodSet(dt)
					for i := 0; i < ms.Len(); i++ {
						if ms.At(i).Obj().Name() == c.Method.Name() {
							if m := e.prog.MethodValue(ms.At(i)); m != nil && e.isRepoFunc(m) {
								for comp := range e.dirtyOf(m) {
									total[comp] = true
								}
							}
						}
					}
				}
			} else if callee := c.StaticCallee(); callee != nil && e.isRepoFunc(callee) {
				for comp := range e.dirtyOf(callee) {
					total[comp] = true
				}
			}
		}
	}
	return total
}

// freshFrameAlloc: the allocation set guarding a slice/map component, or "" if the component is of another kind.
func freshFrameAlloc(comp string) string {
	switch {
	case strings.HasPrefix(comp, "E_"):
		return "A_" + comp
	case strings.HasPrefix(comp, "MD_"), strings.HasPrefix(comp, "MV_"), strings.HasPrefix(comp, "MC_"):
		return "A_M_" + comp[3:]
	}
	return ""
}
