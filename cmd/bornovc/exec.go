package main

// Block scheduling, merging, loops, instruction semantics.

import (
	"os"
	"go/ast"
	"fmt"
	"go/constant"
	"go/token"
	"go/types"
	"sort"
	"strings"

	"golang.org/x/tools/go/ssa"
)

type inEdge struct {
	cond Term
	st   *State
	pred *ssa.BasicBlock
}

type loopInfo struct {
	header *ssa.BasicBlock
	blocks map[*ssa.BasicBlock]bool
	backs  []*ssa.BasicBlock // sources of back edges
	ord    int               // 1-based ordinal in source order
}

type cfgInfo struct {
	order []*ssa.BasicBlock
	loops map[*ssa.BasicBlock]*loopInfo
	back  map[[2]int]bool
}

var cfgCache = map[*ssa.Function]*cfgInfo{}

func analyzeCFG(fn *ssa.Function) *cfgInfo {
	if c, ok := cfgCache[fn]; ok {
		return c
	}
	ci := &cfgInfo{loops: map[*ssa.BasicBlock]*loopInfo{}, back: map[[2]int]bool{}}
	for _, b := range fn.Blocks {
		for _, s := range b.Succs {
			if s.Dominates(b) {
				ci.back[[2]int{b.Index, s.Index}] = true
				li := ci.loops[s]
				if li == nil {
					li = &loopInfo{header: s, blocks: map[*ssa.BasicBlock]bool{s: true}}
					ci.loops[s] = li
				}
				li.backs = append(li.backs, b)
				// natural loop: blocks reaching b without passing s
				var stack []*ssa.BasicBlock
				if !li.blocks[b] {
					li.blocks[b] = true
					stack = append(stack, b)
				}
				for len(stack) > 0 {
					x := stack[len(stack)-1]
					stack = stack[:len(stack)-1]
					for _, p := range x.Preds {
						if !li.blocks[p] {
							li.blocks[p] = true
							stack = append(stack, p)
						}
					}
				}
			}
		}
	}
	// topological order ignoring back edges
	visited := map[*ssa.BasicBlock]bool{}
	var post []*ssa.BasicBlock
	var dfs func(b *ssa.BasicBlock)
	dfs = func(b *ssa.BasicBlock) {
		visited[b] = true
		for _, s := range b.Succs {
			if ci.back[[2]int{b.Index, s.Index}] || visited[s] {
				continue
			}
			dfs(s)
		}
		post = append(post, b)
	}
	if len(fn.Blocks) > 0 {
		dfs(fn.Blocks[0])
	}
	for i := len(post) - 1; i >= 0; i-- {
		ci.order = append(ci.order, post[i])
	}
	// loop ordinals by position of the header's first positioned instruction, falling back to block index
	var hs []*loopInfo
	for _, li := range ci.loops {
		hs = append(hs, li)
	}
	sort.Slice(hs, func(i, j int) bool {
		pi, pj := loopPos(hs[i]), loopPos(hs[j])
		if pi != pj {
			return pi < pj
		}
		return hs[i].header.Index < hs[j].header.Index
	})
	for i, li := range hs {
		li.ord = i + 1
	}
	cfgCache[fn] = ci
	return ci
}

func loopPos(li *loopInfo) token.Pos {
	best := token.NoPos
	for b := range li.blocks {
		for _, in := range b.Instrs {
			if p := in.Pos(); p.IsValid() && (best == token.NoPos || p < best) {
				best = p
			}
		}
	}
	return best
}

func (fe *FuncEnc) newFrame(fn *ssa.Function, parent *Frame, prefix string) *Frame {
	return &Frame{fn: fn, vals: map[ssa.Value]Term{}, tuples: map[ssa.Value][]Term{}, addrs: map[ssa.Value]*Addr{},
		out: map[*ssa.BasicBlock]*State{}, reach: map[*ssa.BasicBlock]Term{}, edgeCond: map[[2]int]Term{},
		parent: parent, prefix: prefix, params: map[string]Term{}, ptypes: map[string]types.Type{},
		headerSt: map[*ssa.BasicBlock]*State{}, headerV0: map[*ssa.BasicBlock][]Term{}, labelCnt: map[string]int{},
		iterOf: map[*ssa.BasicBlock]Term{}, mapRange: map[ssa.Value]*mapRangeInfo{}, headerFlag: map[*ssa.BasicBlock]Term{}}
}

// merge in-edges into (reach, state).
func (fe *FuncEnc) merge(ins []inEdge, tag string) (Term, *State) {
	if len(ins) == 0 {
		return tBool(false), &State{heap: map[string]Term{}}
	}
	if len(ins) == 1 {
		return fe.define("reach_"+tag, ins[0].cond), ins[0].st.clone()
	}
	var conds []Term
	keys := map[string]bool{}
	for _, e := range ins {
		conds = append(conds, e.cond)
		for k := range e.st.heap {
			keys[k] = true
		}
	}
	reach := fe.define("reach_"+tag, tOr(conds...))
	st := &State{heap: map[string]Term{}}
	for _, k := range sortStrings(keys) {
		var ts []Term
		same := true
		for _, e := range ins {
			t, ok := e.st.heap[k]
			if !ok {
				t = fe.comp(e.st, k, fe.eng.compSorts[k])
			}
			ts = append(ts, t)
			if t.S != ts[0].S {
				same = false
			}
		}
		if same {
			st.heap[k] = ts[0]
			continue
		}
		st.heap[k] = fe.define(k, iteChain(ins, ts))
	}
	return reach, st
}

func iteChain(ins []inEdge, ts []Term) Term {
	res := ts[len(ts)-1]
	for i := len(ts) - 2; i >= 0; i-- {
		res = tIte(ins[i].cond, ts[i], res)
	}
	return res
}

// execFrame executes all blocks of the current frame's function from entry state st under path.
func (fe *FuncEnc) execFrame(f *Frame, st0 *State, path0 Term) {
	fn := f.fn
	ci := analyzeCFG(fn)
	for _, b := range ci.order {
		var reach Term
		var st *State
		li := ci.loops[b]
		f.curBlock = b
		if b.Index == 0 {
			reach, st = path0, st0.clone()
			if li != nil {
				engErr("%s: entry block is a loop header", fe.name)
			}
		} else {
			var ins []inEdge
			for _, p := range b.Preds {
				if ci.back[[2]int{p.Index, b.Index}] {
					continue
				}
				c, ok := f.edgeCond[[2]int{p.Index, b.Index}]
				if !ok {
					continue // unreachable predecessor
				}
				ins = append(ins, inEdge{cond: c, st: f.out[p], pred: p})
			}
			reach, st = fe.merge(ins, fmt.Sprintf("b%d", b.Index))
			// phis
			for _, in := range b.Instrs {
				phi, ok := in.(*ssa.Phi)
				if !ok {
					break
				}
				var ts []Term
				for _, e := range ins {
					ts = append(ts, fe.phiOperand(phi, b, e.pred))
				}
				if len(ts) == 0 {
					f.vals[phi] = fe.eng.sorts.zero(phi.Type())
					continue
				}
				fe.setVal(phi, iteChain(ins, ts))
			}
			if li != nil {
				reach, st = fe.enterLoop(f, li, reach, st)
			}
		}
		f.reach[b] = reach
		fe.execBlock(f, b, st, reach, ci)
	}
}

func (fe *FuncEnc) phiOperand(phi *ssa.Phi, b, pred *ssa.BasicBlock) Term {
	for i, p := range b.Preds {
		if p == pred {
			v := phi.Edges[i]
			if c, ok := v.(*ssa.Const); ok {
				// typed nil etc.
				_ = c
			}
			return fe.valAs(v, phi.Type())
		}
	}
	engErr("phi operand not found")
	return Term{}
}

// valAs evaluates v; untyped-nil constants take the sort of the wanted type.
func (fe *FuncEnc) valAs(v ssa.Value, want types.Type) Term {
	if c, ok := v.(*ssa.Const); ok && c.Value == nil {
		return fe.eng.sorts.zero(want)
	}
	return fe.val(v)
}

func (fe *FuncEnc) execBlock(f *Frame, b *ssa.BasicBlock, st *State, reach Term, ci *cfgInfo) {
	f.curSt = st
	for _, in := range b.Instrs {
		switch x := in.(type) {
		case *ssa.Phi:
			// done
		case *ssa.If:
			c := fe.val(x.Cond)
			f.out[b] = st
			fe.edge(f, b, b.Succs[0], tAnd(reach, c), st, ci)
			fe.edge(f, b, b.Succs[1], tAnd(reach, tNot(c)), st, ci)
		case *ssa.Jump:
			f.out[b] = st
			fe.edge(f, b, b.Succs[0], reach, st, ci)
		case *ssa.Return:
			var res []Term
			sig := f.fn.Signature.Results()
			for i, r := range x.Results {
				res = append(res, fe.valAs(r, sig.At(i).Type()))
			}
			if f.mon != nil {
				fe.monReturn(f, st, reach, res, x.Pos())
			}
			f.rets = append(f.rets, retInfo{block: b, reach: reach, st: st, res: res, pos: x.Pos()})
			if f.parent == nil {
				fe.cover(fmt.Sprintf("return@%s", fe.eng.relPos(x.Pos())), reach, x.Pos())
			}
		case *ssa.Panic:
			fe.emit("safety.panic", fe.srcLabel(x.Pos(), "call"), reach, tBool(false), "explicit panic", x.Pos())
		default:
			f.curInstr = in
			fe.step(f, in, st, reach)
			f.curInstr = nil
		}
	}
}

func (fe *FuncEnc) edge(f *Frame, from, to *ssa.BasicBlock, cond Term, st *State, ci *cfgInfo) {
	key := [2]int{from.Index, to.Index}
	if ci.back[key] {
		fe.backEdge(f, ci.loops[to], from, cond, st)
		return
	}
	if old, ok := f.edgeCond[key]; ok {
		f.edgeCond[key] = tOr(old, cond)
	} else {
		f.edgeCond[key] = fe.define(fmt.Sprintf("e%d_%d", from.Index, to.Index), cond)
	}
}

// ---------------------------------------------------------------------
// loops

func (fe *FuncEnc) loopContract(f *Frame, li *loopInfo) *LoopContract {
	var con *Contract
	if f == fe.cur && f.parent == nil {
		con = fe.con
	} else if n, ok := fe.eng.fnames[f.fn]; ok {
		con = fe.eng.contracts[n]
	}
	if con == nil {
		// a helper without contract, inlined: its loops take the loop clauses of the top contract that no loop of the
		// top function matches any more (the loop was moved out of it)
		if f.borrow != nil && fe.con != nil {
			key := fmt.Sprintf("%s:%d", fe.eng.fnames[f.fn], li.ord)
			if fe.borrowed == nil {
				fe.borrowed = map[string]int{}
			}
			ord, ok := fe.borrowed[key]
			if !ok {
				if len(fe.orphanLoops) == 0 {
					return nil
				}
				ord = fe.orphanLoops[0]
				fe.orphanLoops = fe.orphanLoops[1:]
				fe.borrowed[key] = ord
				fe.assumes[fmt.Sprintf("loop %d of the contract of %s is taken to be loop %d of the helper %s (the loop was moved into a function without contract)", ord, fe.name, li.ord, fe.eng.fnames[f.fn])] = true
			}
			return fe.con.Loops[ord]
		}
		return nil
	}
	return con.Loops[fe.loopOrd(f.fn, con, li.ord)]
}

// loopOrd maps the ordinal of a loop of the code to the ordinal of its clauses in the contract.  Identity while the two
// agree in number; otherwise an order-preserving matching by the names the clauses mention and the loop carries.
func (fe *FuncEnc) loopOrd(fn *ssa.Function, con *Contract, ord int) int {
	ci := analyzeCFG(fn)
	if len(ci.loops) == len(con.Loops) {
		return ord
	}
	if fe.loopMaps == nil {
		fe.loopMaps = map[*ssa.Function]map[int]int{}
	}
	m, ok := fe.loopMaps[fn]
	if !ok {
		m = fe.matchLoops(fn, con, ci)
		fe.loopMaps[fn] = m
	}
	if c, ok := m[ord]; ok {
		return c
	}
	return -1
}

func (fe *FuncEnc) matchLoops(fn *ssa.Function, con *Contract, ci *cfgInfo) map[int]int {
	// code loops by ordinal, with the names they carry or define
	var code []*loopInfo
	for _, li := range ci.loops {
		code = append(code, li)
	}
	sort.Slice(code, func(i, j int) bool { return code[i].ord < code[j].ord })
	codeNames := make([]map[string]bool, len(code))
	for i, li := range code {
		ns := map[string]bool{}
		for b := range li.blocks {
			for _, in := range b.Instrs {
				switch x := in.(type) {
				case *ssa.Phi:
					if x.Comment != "" {
						ns[x.Comment] = true
					}
				case *ssa.DebugRef:
					if id, ok := x.Expr.(*ast.Ident); ok {
						ns[id.Name] = true
					}
				}
			}
		}
		codeNames[i] = ns
	}
	var cords []int
	for k := range con.Loops {
		cords = append(cords, k)
	}
	sort.Ints(cords)
	conNames := make([]map[string]bool, len(cords))
	for j, k := range cords {
		ns := map[string]bool{}
		for _, cl := range con.Loops[k].Invariants {
			for _, w := range identRe.FindAllString(cl.Text, -1) {
				ns[w] = true
			}
		}
		conNames[j] = ns
	}
	// a loop inside the type-switch case for T matches clauses that speak about `let x = expr.(*T)`
	caseOf := make([]string, len(code))
	for i, li := range code {
		for _, b := range fn.Blocks {
			if len(b.Preds) != 1 || !(b == li.header || b.Dominates(li.header)) {
				continue
			}
			pb := b.Preds[0]
			if len(pb.Instrs) == 0 || pb.Succs[0] != b {
				continue
			}
			iff, ok := pb.Instrs[len(pb.Instrs)-1].(*ssa.If)
			if !ok {
				continue
			}
			ex, ok := iff.Cond.(*ssa.Extract)
			if !ok || ex.Index != 1 {
				continue
			}
			if ta, ok := ex.Tuple.(*ssa.TypeAssert); ok && ta.CommaOk {
				if _, isParam := ta.X.(*ssa.Parameter); isParam {
					caseOf[i] = types.TypeString(ta.AssertedType, func(p *types.Package) string { return p.Name() })
				}
			}
		}
	}
	conCase := make([]map[string]bool, len(cords))
	for j := range cords {
		conCase[j] = map[string]bool{}
		for w := range conNames[j] {
			if ex, ok := con.Lets[w]; ok {
				if ta, ok := ex.(*ast.TypeAssertExpr); ok {
					conCase[j][types.ExprString(ta.Type)] = true
				}
			}
		}
	}
	// names weigh by how specific they are: a name every loop clause mentions (env, signal) says nothing, the list a
	// loop builds says nearly everything; parameters of the function never count
	df := map[string]int{}
	for _, ns := range conNames {
		for w := range ns {
			df[w]++
		}
	}
	params := map[string]bool{"iter": true}
	for _, p := range fn.Params {
		params[p.Name()] = true
	}
	score := func(i, j int) int {
		n := 0
		for w := range codeNames[i] {
			if conNames[j][w] && !params[w] {
				n += 1000 / (df[w] * df[w])
			}
		}
		if caseOf[i] != "" && conCase[j][caseOf[i]] {
			n += 5000
		}
		return n
	}
	// order-preserving alignment of maximal total score
	n, mm := len(code), len(cords)
	best := make([][]int, n+1)
	for i := range best {
		best[i] = make([]int, mm+1)
	}
	for i := n - 1; i >= 0; i-- {
		for j := mm - 1; j >= 0; j-- {
			b := best[i+1][j]
			if best[i][j+1] > b {
				b = best[i][j+1]
			}
			if sc := score(i, j); sc > 0 && sc+best[i+1][j+1] > b {
				b = sc + best[i+1][j+1]
			}
			best[i][j] = b
		}
	}
	out := map[int]int{}
	used := map[int]bool{}
	i, j := 0, 0
	for i < n && j < mm {
		if sc := score(i, j); sc > 0 && best[i][j] == sc+best[i+1][j+1] {
			out[code[i].ord] = cords[j]
			used[cords[j]] = true
			i++
			j++
		} else if best[i][j] == best[i+1][j] {
			i++
		} else {
			j++
		}
	}
	if os.Getenv("VERIF_DEBUG_LOOPS") != "" {
		fmt.Fprintf(os.Stderr, "loop matching %s: %v\n", fe.eng.fnames[fn], out)
	}
	if fn == fe.fn {
		fe.orphanLoops = nil
		for _, k := range cords {
			if !used[k] {
				fe.orphanLoops = append(fe.orphanLoops, k)
			}
		}
	}
	return out
}

// globalMapWrite: a table held in a package-level variable (the reserved names, the keywords) is written only by the
// package initializer.  Writing it anywhere else is package-level state that survives from one run to the next (C20, C13)
// and voids the invariant other functions assume about it.
func (fe *FuncEnc) globalMapWrite(f *Frame, m ssa.Value, path Term, pos token.Pos) {
	u, ok := m.(*ssa.UnOp)
	if !ok {
		return
	}
	g, ok := u.X.(*ssa.Global)
	if !ok || g.Pkg == nil || f.fn.Name() == "init" {
		return
	}
	n0 := len(fe.obls)
	fe.checkOnly = true
	fe.emit("frame.globalmap", g.Name(), path, tBool(false), "the table in package variable "+g.Name()+" is written only by the package initializer", pos)
	fe.checkOnly = false
	for _, o := range fe.obls[n0:] {
		o.Props = append(append([]string{}, fe.props...), "C20", "C13", "C08")
	}
}

// entryFor: the state `old(...)` refers to in loop clauses of frame f (the lending frame's entry for borrowed clauses).
func (fe *FuncEnc) entryFor(f *Frame) *State {
	if f.borrow != nil && fe.eng.contracts[fe.eng.fnames[f.fn]] == nil {
		return f.borrow.entry
	}
	return f.entry
}

// loopNames binds source-level names visible in loop contracts to terms.
func (fe *FuncEnc) loopNames(f *Frame, li *loopInfo, phiVal func(*ssa.Phi) Term, st *State, ghost Term) map[string]TV {
	m := map[string]TV{}
	for _, in := range li.header.Instrs {
		if nx, ok := in.(*ssa.Next); ok {
			if info := f.mapRange[nx.Iter]; info != nil {
				m["pos"] = TV{fe.comp(st, "RN_"+info.visComp, SInt), types.Typ[types.Int]}
				if !info.isStr {
					ks := fe.eng.sorts.sortOf(info.mapType.Key())
					m["visited"] = TV{fe.comp(st, "RV_"+info.visComp, arrSort(ks, SBool)), nil}
				}
			}
		}
	}
	for _, in := range li.header.Instrs {
		phi, ok := in.(*ssa.Phi)
		if !ok {
			break
		}
		name := phi.Comment
		if name == "rangeindex" {
			v := phiVal(phi)
			m["iter"] = TV{tAdd(v, tInt(1)), types.Typ[types.Int]}
			continue
		}
		if name != "" {
			m[name] = TV{phiVal(phi), phi.Type()}
		}
	}
	// `iter` for a counting loop written with an explicit index (for i := c; ...; i++): iterations completed = i - c.
	// Keeps invariants stated with `iter` valid when a range loop is rewritten as an index loop.
	if _, ok := m["iter"]; !ok {
		for _, in := range li.header.Instrs {
			phi, ok := in.(*ssa.Phi)
			if !ok {
				break
			}
			if b, isB := phi.Type().Underlying().(*types.Basic); !isB || b.Kind() != types.Int || len(phi.Edges) != 2 {
				continue
			}
			var init *ssa.Const
			step := false
			for _, e := range phi.Edges {
				switch x := e.(type) {
				case *ssa.Const:
					init = x
				case *ssa.BinOp:
					if c, isC := x.Y.(*ssa.Const); isC && x.Op == token.ADD && x.X == phi && c.Value != nil && c.Value.ExactString() == "1" {
						step = true
					}
				}
			}
			if init != nil && init.Value != nil && step {
				m["iter"] = TV{tSub(phiVal(phi), fe.val(init)), types.Typ[types.Int]}
				break
			}
		}
	}
	// any other loop shape: a ghost counter of completed iterations (0 at entry, +1 on every back edge)
	if _, ok := m["iter"]; !ok && ghost.S != "" {
		m["iter"] = TV{ghost, types.Typ[types.Int]}
	}
	return m
}

func (fe *FuncEnc) enterLoop(f *Frame, li *loopInfo, reach Term, st *State) (Term, *State) {
	h := li.header
	lc := fe.loopContract(f, li)
	entryVals := map[*ssa.Phi]Term{}
	for _, in := range h.Instrs {
		if phi, ok := in.(*ssa.Phi); ok {
			entryVals[phi] = f.vals[phi]
		} else {
			break
		}
	}
	pos := loopPos(li)
	// monitor invariant at entry
	if f.mon != nil {
		fe.monLoopEntry(f, li, st, reach, pos)
	}
	// inv.entry
	if lc != nil {
		names := fe.loopNames(f, li, func(p *ssa.Phi) Term { return entryVals[p] }, st, tInt(0))
		for _, inv := range lc.Invariants {
			t := fe.evalClause(f, inv, st, fe.entryFor(f), names, nil, b2pos(h, pos))
			fe.emit("inv.entry", fmt.Sprintf("loop%d.%s", li.ord, inv.Label), reach, t, inv.Text, pos)
		}
	}
	// havoc
	st = st.clone()
	mods := fe.eng.loopModset(f.fn, li)
	ldirty := fe.eng.loopDirty(f.fn, li)
	// a component that the loop writes only through values allocated by this invocation keeps every row that existed
	// at loop entry -- unless the written value was allocated before (outside) the loop: then only the rows that
	// existed when the function was entered are certainly untouched
	semi := fe.eng.loopSemiFresh(li)
	lateCtor := fe.eng.loopLateCtor(li)
	entryAlloc := map[string]Term{}
	atEntry := func(as string) Term {
		if t, ok := entryAlloc[as]; ok {
			return t
		}
		t := fe.atom(fe.comp(f.entry, as, arrSort(SInt, SBool)))
		entryAlloc[as] = t
		return t
	}
	preAlloc := map[string]Term{}
	for c := range mods {
		if as := freshFrameAlloc(c); as != "" && !ldirty[c] {
			if _, done := preAlloc[as]; !done {
				if _, known := fe.eng.compSorts[as]; known {
					preAlloc[as] = fe.atom(fe.comp(st, as, arrSort(SInt, SBool)))
					st.heap[as] = preAlloc[as]
				}
			}
		}
	}
	for c := range mods {
		if owner, ok := fe.eng.compOwner[c]; ok && !fe.eng.notCtorOnly[c] {
			if _, done := preAlloc[owner]; !done {
				preAlloc[owner] = fe.atom(fe.comp(st, owner, arrSort(SInt, SBool)))
				st.heap[owner] = preAlloc[owner]
			}
		}
	}
	for _, c := range sortStrings(mods) {
		s, ok := fe.eng.compSorts[c]
		if !ok {
			continue // component never materialised: nothing to havoc
		}
		old := fe.comp(st, c, s)
		if strings.HasPrefix(c, "A_") {
			old = fe.atom(old)
		}
		nw := fe.fresh(c+"_L", s)
		st.heap[c] = nw
		if owner, ok := fe.eng.compOwner[c]; ok && !fe.eng.notCtorOnly[c] {
			if lateCtor[c] && f.entry != nil {
				fe.ctorFrame(st, c, old, nw, atEntry(owner))
			} else if !lateCtor[c] {
				fe.ctorFrame(st, c, old, nw, preAlloc[owner])
			}
		}
		if as := freshFrameAlloc(c); as != "" && !ldirty[c] {
			if a, ok := preAlloc[as]; ok {
				if semi[c] {
					if f.entry != nil {
						fe.ctorFrame(st, c, old, nw, atEntry(as))
					}
				} else {
					fe.ctorFrame(st, c, old, nw, a)
				}
			}
		}
		if strings.HasPrefix(c, "A_") {
			fe.assume(tBool(true), Term{fmt.Sprintf("(forall ((r Int)) (! (=> (select %s r) (select %s r)) :pattern ((select %s r))))", old.S, nw.S, old.S), SBool})
		}
		if strings.HasPrefix(c, "MC_") {
			fe.assume(tBool(true), Term{fmt.Sprintf("(forall ((r Int)) (! (>= (select %s r) 0) :pattern ((select %s r))))", nw.S, nw.S), SBool})
		}
		fe.havocFacts(c, old, nw, reach)
	}
	for _, in := range h.Instrs {
		phi, ok := in.(*ssa.Phi)
		if !ok {
			break
		}
		nv := fe.fresh(phi.Name()+"_"+sanitize(phi.Comment), fe.eng.sorts.sortOf(phi.Type()))
		f.vals[phi] = nv
		fe.assume(reach, fe.wf(nv, phi.Type(), st))
		if phi.Comment == "rangeindex" {
			fe.assume(reach, tLe(tInt(-1), nv))
			f.iterOf[h] = tAdd(nv, tInt(1))
			if lim := rangeLimit(h, phi); lim != nil {
				fe.assume(reach, tLt(nv, fe.val(lim)))
			}
		}
	}
	if f.mon != nil {
		fe.monLoopHavoc(f, li, st, reach)
	}
	gi := fe.fresh(fmt.Sprintf("iter_L%d", li.ord), SInt)
	fe.assume(reach, tLe(tInt(0), gi))
	if f.ghostIter == nil {
		f.ghostIter = map[*ssa.BasicBlock]Term{}
	}
	f.ghostIter[h] = gi
	names := fe.loopNames(f, li, func(p *ssa.Phi) Term { return f.vals[p] }, st, gi)
	if lc != nil {
		for _, inv := range lc.Invariants {
			t := fe.evalClause(f, inv, st, fe.entryFor(f), names, nil, b2pos(h, pos))
			fe.assume(reach, t)
		}
		var v0 []Term
		for _, d := range lc.Decreases {
			v0 = append(v0, fe.define("variant", fe.evalClause(f, d, st, fe.entryFor(f), names, nil, pos)))
		}
		f.headerV0[h] = v0
	}
	f.headerSt[h] = st.clone()
	if lc != nil && lc.At == "interpreted" {
		f.headerFlag[h] = fe.comp(st, "G_utils_HadRuntimeError", SBool)
	}
	return reach, st
}

func b2pos(b *ssa.BasicBlock, p token.Pos) token.Pos { return p }

func (fe *FuncEnc) backEdge(f *Frame, li *loopInfo, from *ssa.BasicBlock, cond Term, st *State) {
	h := li.header
	f.curBlock = from
	lc := fe.loopContract(f, li)
	pos := loopPos(li)
	phiVal := func(p *ssa.Phi) Term { return fe.phiOperand(p, h, from) }
	// rangeindex default
	for _, in := range h.Instrs {
		phi, ok := in.(*ssa.Phi)
		if !ok {
			break
		}
		if phi.Comment == "rangeindex" {
			g := tLe(tInt(-1), phiVal(phi))
			if lim := rangeLimit(h, phi); lim != nil {
				g = tAnd(g, tLt(phiVal(phi), fe.val(lim)))
			}
			fe.emit("inv.step", fmt.Sprintf("loop%d.rangeindex", li.ord), cond, g, "-1 <= index < len", pos)
		}
	}
	if f.mon != nil {
		fe.monBackEdge(f, li, st, cond, pos)
	}
	if lc == nil {
		return
	}
	if hf, ok := f.headerFlag[h]; ok {
		fe.emit("effect.E3", fmt.Sprintf("loop%d", li.ord), cond, tNot(hf), "C06: an interpreted loop does not go round again in an iteration that began after a runtime error", pos)
		fe.obls[len(fe.obls)-1].Props = []string{"C06"}
	}
	var gnext Term
	if g, ok := f.ghostIter[h]; ok {
		gnext = tAdd(g, tInt(1))
	}
	names := fe.loopNames(f, li, phiVal, st, gnext)
	for _, inv := range lc.Invariants {
		t := fe.evalClause(f, inv, st, fe.entryFor(f), names, nil, pos)
		fe.emit("inv.step", fmt.Sprintf("loop%d.%s", li.ord, inv.Label), cond, t, inv.Text, pos)
	}
	for i, d := range lc.Decreases {
		v1 := fe.evalClause(f, d, st, fe.entryFor(f), names, nil, pos)
		v0 := f.headerV0[h][i]
		if i == 0 {
			fe.emit("dec", fmt.Sprintf("loop%d", li.ord), cond, tAnd(tLe(tInt(0), v0), tLt(v1, v0)), d.Text, pos)
		}
	}
}

// havocFacts can relate an old and a havoced component (hook for frame facts); nothing by default.
func (fe *FuncEnc) havocFacts(c string, old, nw Term, path Term) {}

// ---------------------------------------------------------------------
// instructions

func (fe *FuncEnc) step(f *Frame, in ssa.Instruction, st *State, path Term) {
	so := fe.eng.sorts
	switch x := in.(type) {
	case *ssa.DebugRef:
		return
	case *ssa.Alloc:
		fe.doAlloc(f, x, st, path)
	case *ssa.FieldAddr:
		base := x.X
		pt := base.Type().Underlying().(*types.Pointer)
		n, _ := pt.Elem().(*types.Named)
		stt := pt.Elem().Underlying().(*types.Struct)
		ftype := stt.Field(x.Field).Type()
		if a, ok := f.addrs[base]; ok {
			// nested struct by value inside another cell
			info := so.structInfo(so.sortOf(pt.Elem()))
			if info == nil {
				engErr("%s: FieldAddr into opaque struct %s", fe.name, pt.Elem())
			}
			if a.Kind == aField && a.Comp == "" {
				f.addrs[x] = &Addr{Comp: fieldComp(so, n, stt, x.Field), Kind: aField, Ref: a.Ref, Typ: ftype}
				return
			}
			na := *a
			na.Path = append(append([]pathSel{}, a.Path...), pathSel{info, x.Field})
			na.Typ = ftype
			f.addrs[x] = &na
			return
		}
		if n == nil || !so.isRepoType(n) {
			engErr("%s: FieldAddr on external struct %s", fe.name, pt.Elem())
		}
		ref := fe.val(base)
		fe.emit("safety.nil", fe.srcLabel(x.Pos(), "nil"), path, tNot(tEq(ref, tInt(0))), "nil dereference", x.Pos())
		f.addrs[x] = &Addr{Comp: fieldComp(so, n, stt, x.Field), Kind: aField, Ref: ref, Typ: ftype}
	case *ssa.Field:
		v := fe.val(x.X)
		info := so.structInfo(v.Sort)
		if info == nil {
			engErr("Field on non-struct sort %s", v.Sort)
		}
		fe.setVal(x, Term{"(" + info.Fields[x.Field] + " " + v.S + ")", info.FSorts[x.Field]})
	case *ssa.IndexAddr:
		idx := fe.intIndex(fe.val(x.Index), path)
		switch t := x.X.Type().Underlying().(type) {
		case *types.Slice:
			s := fe.val(x.X)
			fe.emit("safety.index", fe.srcLabel(x.Pos(), "index"), path, tAnd(tLe(tInt(0), idx), tLt(idx, slLen(s))), "index in range", x.Pos())
			f.addrs[x] = &Addr{Comp: "E_" + so.elemKey(t.Elem()), Kind: aElem, Ref: slRef(s), Idx: fe.define("ix", tAdd(slOff(s), idx)), Typ: t.Elem()}
		case *types.Pointer:
			arr := t.Elem().Underlying().(*types.Array)
			ref := fe.val(x.X)
			fe.emit("safety.index", fe.srcLabel(x.Pos(), "index"), path, tAnd(tLe(tInt(0), idx), tLt(idx, tInt(arr.Len()))), "index in range", x.Pos())
			f.addrs[x] = &Addr{Comp: fe.eng.arrayComp(x.X, arr.Elem()), Kind: aElem, Ref: ref, Idx: idx, Typ: arr.Elem()}
		default:
			engErr("IndexAddr on %s", x.X.Type())
		}
		fe.checkEscape(f, x, st, path)
	case *ssa.UnOp:
		fe.doUnOp(f, x, st, path)
	case *ssa.BinOp:
		fe.doBinOp(f, x, st, path)
	case *ssa.Store:
		a := fe.addrOf(x.Addr)
		if a.Kind == aField && a.Comp == "" || a.Kind == aCell {
			if a.Kind != aGlobal {
				if _, isAlloc := x.Addr.(*ssa.Alloc); !isAlloc {
					fe.emit("safety.nil", fe.srcLabel(x.Pos(), "assign"), path, tNot(tEq(a.Ref, tInt(0))), "nil dereference", x.Pos())
				}
			}
		}
		v := fe.valAs(x.Val, a.Typ)
		fe.cellCheck(f, a, v, st, path, x.Pos())
		fe.store(st, a, v)
	case *ssa.MakeInterface:
		fe.publishCheck(f, x, st, path)
		fe.setVal(x, fe.toVal(fe.val(x.X), x.X.Type()))
	case *ssa.ChangeInterface:
		fe.setVal(x, fe.val(x.X))
	case *ssa.ChangeType:
		fe.setVal(x, fe.val(x.X))
	case *ssa.Convert:
		fe.doConvert(f, x, st, path)
	case *ssa.TypeAssert:
		v := fe.val(x.X)
		test := fe.define("is", fe.typeTest(v, x.AssertedType))
		if x.CommaOk {
			payload := tIte(test, fe.fromVal(v, x.AssertedType), so.zero(x.AssertedType))
			f.tuples[x] = []Term{fe.define(x.Name()+"v", payload), test}
			fe.typeInvAssume(f, f.tuples[x][0], x.AssertedType, tAnd(path, test), st)
		} else {
			fe.emit("safety.assert", fe.srcLabel(x.Pos(), "assert"), path, test, "type assertion holds", x.Pos())
			fe.setVal(x, fe.fromVal(v, x.AssertedType))
		}
	case *ssa.Extract:
		tp, ok := f.tuples[x.Tuple]
		if !ok {
			engErr("%s: extract from unknown tuple %s", fe.name, x.Tuple.Name())
		}
		f.vals[x] = tp[x.Index]
	case *ssa.MakeSlice:
		ln := fe.val(x.Len)
		cp := fe.val(x.Cap)
		es := so.sortOf(x.Type().Underlying().(*types.Slice).Elem())
		fe.emit("safety.makeslice", fe.srcLabel(x.Pos(), "call"), path, tAnd(tLe(tInt(0), ln), tLe(ln, cp)), "0 <= len <= cap", x.Pos())
		ek := so.elemKey(x.Type().Underlying().(*types.Slice).Elem())
		ref := fe.allocRef(st, "A_E_"+ek, path)
		comp := "E_" + ek
		e := fe.comp(st, comp, arrSort(SInt, arrSort(SInt, es)))
		fe.setComp(st, comp, tStore(e, ref, so.zeroOfSort(arrSort(SInt, es))))
		fe.setVal(x, mkSlice(ref, tInt(0), ln, cp))
	case *ssa.Slice:
		fe.doSlice(f, x, st, path)
	case *ssa.MakeMap:
		mt := x.Type().Underlying().(*types.Map)
		key := fe.mapKey(mt)
		ref := fe.allocRef(st, "A_M_"+key, path)
		ks, vs := so.sortOf(mt.Key()), so.sortOf(mt.Elem())
		md := fe.comp(st, "MD_"+key, arrSort(SInt, arrSort(ks, SBool)))
		fe.setComp(st, "MD_"+key, tStore(md, ref, Term{"((as const " + string(arrSort(ks, SBool)) + ") false)", arrSort(ks, SBool)}))
		mc := fe.comp(st, "MC_"+key, arrSort(SInt, SInt))
		fe.setComp(st, "MC_"+key, tStore(mc, ref, tInt(0)))
		fe.comp(st, "MV_"+key, arrSort(SInt, arrSort(ks, vs)))
		fe.setVal(x, ref)
	case *ssa.MapUpdate:
		mt := x.Map.Type().Underlying().(*types.Map)
		m := fe.val(x.Map)
		k := fe.val(x.Key)
		v := fe.valAs(x.Value, mt.Elem())
		fe.emit("safety.nilmap", fe.srcLabel(x.Pos(), "assign"), path, tNot(tEq(m, tInt(0))), "assignment to entry in nil map", x.Pos())
		fe.globalMapWrite(f, x.Map, path, x.Pos())
		fe.mapCellCheck(f, mt, m, k, v, st, path, x.Pos())
		fe.mapStore(st, mt, m, k, v)
	case *ssa.Lookup:
		switch t := x.X.Type().Underlying().(type) {
		case *types.Map:
			key := fe.mapKey(t)
			ks, vs := so.sortOf(t.Key()), so.sortOf(t.Elem())
			m := fe.val(x.X)
			k := fe.val(x.Index)
			md := fe.comp(st, "MD_"+key, arrSort(SInt, arrSort(ks, SBool)))
			mv := fe.comp(st, "MV_"+key, arrSort(SInt, arrSort(ks, vs)))
			has := fe.define("has", tSelect(tSelect(md, m), k))
			raw := tSelect(tSelect(mv, m), k)
			fe.assume(path, tImp(has, fe.wf(raw, t.Elem(), st)))
			fe.mapCellAssume(f, t, m, k, raw, has, st, path)
			v := fe.define(x.Name()+"v", tIte(has, raw, so.zero(t.Elem())))
			if x.CommaOk {
				f.tuples[x] = []Term{v, has}
			} else {
				fe.setVal(x, v)
			}
		default:
			engErr("%s: Lookup on %s", fe.name, x.X.Type())
		}
	case *ssa.Range:
		fe.doRange(f, x, st, path)
	case *ssa.Next:
		fe.doNext(f, x, st, path)
	case *ssa.Call:
		fe.doCall(f, x, st, path)
	case *ssa.RunDefers, *ssa.Defer, *ssa.Go, *ssa.Select, *ssa.Send, *ssa.MakeClosure, *ssa.MakeChan:
		engErr("%s: unsupported instruction %T", fe.name, in)
	default:
		engErr("%s: unknown instruction %T: %s", fe.name, in, in)
	}
}

// intIndex converts an index term to Int (int64 indices go through s2i with its ground lemmas).
func (fe *FuncEnc) intIndex(i Term, path Term) Term {
	if i.Sort == SBV64 {
		return fe.s2i(i)
	}
	return i
}

// s2i: signed value of a 64-bit vector, with ground two's-complement facts.
func (fe *FuncEnc) s2i(b Term) Term {
	t := Term{"(s2i " + b.S + ")", SInt}
	fe.assume(tBool(true), Term{fmt.Sprintf("(and (<= (- 9223372036854775808) %s) (< %s 9223372036854775808) (= (bvslt %s #x0000000000000000) (< %s 0)) (= (= %s #x0000000000000000) (= %s 0)))", t.S, t.S, b.S, t.S, b.S, t.S), SBool})
	if o, ok := fe.bvOffsets[b.S]; ok {
		// no overflow => exact
		bs := Term{"(s2i " + o.base.S + ")", SInt}
		sum := tAdd(bs, tInt(o.delta))
		fe.assume(tBool(true), Term{fmt.Sprintf("(=> (and (<= (- 9223372036854775808) %s) (< %s 9223372036854775808)) (= %s %s))", sum.S, sum.S, t.S, sum.S), SBool})
		fe.assume(tBool(true), Term{fmt.Sprintf("(and (<= (- 9223372036854775808) %s) (< %s 9223372036854775808) (= (bvslt %s #x0000000000000000) (< %s 0)))", bs.S, bs.S, o.base.S, bs.S), SBool})
	}
	fe.assumes["int64<->int conversions use an uninterpreted s2i with ground two's-complement facts (range, sign, zero, successor)"] = true
	return fe.define("s2i", t)
}

func (fe *FuncEnc) allocRef(st *State, aset string, path Term) Term {
	a := fe.comp(st, aset, arrSort(SInt, SBool))
	r := fe.fresh("new", SInt)
	fe.assume(tBool(true), tAnd(tLt(tInt(0), r), tNot(tSelect(a, r))))
	fe.setComp(st, aset, tStore(a, r, tBool(true)))
	return r
}

func (fe *FuncEnc) doAlloc(f *Frame, x *ssa.Alloc, st *State, path Term) {
	so := fe.eng.sorts
	elem := x.Type().Underlying().(*types.Pointer).Elem()
	switch u := elem.Underlying().(type) {
	case *types.Array:
		es := so.sortOf(u.Elem())
		ref := fe.allocRef(st, "A_E_"+so.elemKey(u.Elem()), path)
		comp := fe.eng.arrayComp(x, u.Elem())
		e := fe.comp(st, comp, arrSort(SInt, arrSort(SInt, es)))
		fe.setComp(st, comp, tStore(e, ref, so.zeroOfSort(arrSort(SInt, es))))
		f.vals[x] = ref
		return
	case *types.Struct:
		if n, ok := elem.(*types.Named); ok && so.isRepoType(n) {
			ref := fe.allocRef(st, "A_H_"+sanitize(so.shortTypeName(n)), path)
			info := so.structInfo(so.sortOf(n))
			for i := 0; i < u.NumFields(); i++ {
				c := fieldComp(so, n, u, i)
				h := fe.comp(st, c, arrSort(SInt, info.FSorts[i]))
				fe.setComp(st, c, tStore(h, ref, so.zeroOfSort(info.FSorts[i])))
			}
			f.vals[x] = ref
			return
		}
	}
	// cell (also opaque external structs such as strings.Builder)
	s := so.sortOf(elem)
	aset := fe.allocSetOfPointee(elem)
	ref := fe.allocRef(st, aset, path)
	comp := "C_" + sortKey(s)
	if strings.HasPrefix(aset, "A_X_") {
		comp = "X_" + strings.TrimPrefix(aset, "A_X_")
	}
	h := fe.comp(st, comp, arrSort(SInt, s))
	fe.setComp(st, comp, tStore(h, ref, so.zeroOfSort(s)))
	if comp == "X_strings_Builder" {
		hs := fe.comp(st, "XS_strings_Builder", arrSort(SInt, SStr))
		fe.setComp(st, "XS_strings_Builder", tStore(hs, ref, Term{"str_empty", SStr}))
	}
	f.vals[x] = ref
	f.addrs[x] = &Addr{Comp: comp, Kind: aCell, Ref: ref, Typ: elem}
}

// checkEscape: an IndexAddr whose pointer escapes (is used as a value) is modelled as a fresh copy of the element.
func (fe *FuncEnc) checkEscape(f *Frame, x *ssa.IndexAddr, st *State, path Term) {
	escapes := false
	for _, r := range *x.Referrers() {
		switch u := r.(type) {
		case *ssa.UnOp, *ssa.FieldAddr, *ssa.DebugRef, *ssa.BinOp:
		case *ssa.Store:
			if u.Addr != x {
				escapes = true
			}
		default:
			escapes = true
		}
	}
	if !escapes {
		return
	}
	a := f.addrs[x]
	n, ok := a.Typ.(*types.Named)
	if !ok || !fe.eng.sorts.isRepoType(n) {
		engErr("%s: escaping interior pointer to %s", fe.name, a.Typ)
	}
	stt, ok := n.Underlying().(*types.Struct)
	if !ok {
		engErr("%s: escaping interior pointer to non-struct", fe.name)
	}
	so := fe.eng.sorts
	v := fe.load(st, a)
	ref := fe.allocRef(st, "A_H_"+sanitize(so.shortTypeName(n)), path)
	info := so.structInfo(so.sortOf(n))
	for i := 0; i < stt.NumFields(); i++ {
		c := fieldComp(so, n, stt, i)
		h := fe.comp(st, c, arrSort(SInt, info.FSorts[i]))
		fe.setComp(st, c, tStore(h, ref, Term{"(" + info.Fields[i] + " " + v.S + ")", info.FSorts[i]}))
	}
	delete(f.addrs, x)
	f.vals[x] = ref
	fe.assumes["an escaping &slice[i] ("+fe.srcLabel(x.Pos(), "index")+") is modelled as a fresh object holding a copy of the element; sound because the slice is dead afterwards"] = true
}

func (fe *FuncEnc) doUnOp(f *Frame, x *ssa.UnOp, st *State, path Term) {
	switch x.Op {
	case token.MUL:
		a := fe.addrOf(x.X)
		if _, isAddr := f.addrs[x.X]; !isAddr {
			if _, isG := x.X.(*ssa.Global); !isG {
				fe.emit("safety.nil", fe.srcLabel(x.Pos(), "nil"), path, tNot(tEq(a.Ref, tInt(0))), "nil dereference", x.Pos())
			}
		}
		v := fe.load(st, a)
		if x.CommaOk {
			engErr("commaok load")
		}
		fe.setVal(x, v)
		nv := f.vals[x]
		fe.assume(path, fe.wf(nv, x.Type(), st))
		fe.cellAssume(f, a, nv, st, path)
		if a.Kind == aGlobal && f.fn.Name() != "init" {
			for _, gi := range fe.eng.globalinvs {
				if gi.Comp == a.Comp {
					fe.assume(path, fe.evalCellInv(gi, nv, x.Type(), st))
					fe.assumes["package variable "+a.Comp+" keeps the value given by its initializer (checked: no function other than init writes it or the map it holds)"] = true
				}
			}
		}
	case token.NOT:
		fe.setVal(x, tNot(fe.val(x.X)))
	case token.SUB:
		v := fe.val(x.X)
		switch v.Sort {
		case SInt:
			fe.setVal(x, Term{"(- " + v.S + ")", SInt})
		case SBV64:
			fe.setVal(x, Term{"(bvneg " + v.S + ")", SBV64})
		case SF64:
			fe.setVal(x, Term{"(fp.neg " + v.S + ")", SF64})
		default:
			engErr("neg of %s", v.Sort)
		}
	case token.XOR:
		v := fe.val(x.X)
		if v.Sort != SBV64 {
			engErr("^x on sort %s", v.Sort)
		}
		fe.setVal(x, Term{"(bvnot " + v.S + ")", SBV64})
	default:
		engErr("unop %s", x.Op)
	}
}

func (fe *FuncEnc) doBinOp(f *Frame, x *ssa.BinOp, st *State, path Term) {
	if ax, ok := f.addrs[x.X]; ok {
		if ay, ok := f.addrs[x.Y]; ok && (x.Op == token.EQL || x.Op == token.NEQ) && ax.Kind == aElem && ay.Kind == aElem && len(ax.Path) == 0 && len(ay.Path) == 0 {
			eq := tAnd(tEq(ax.Ref, ay.Ref), tEq(ax.Idx, ay.Idx))
			if ax.Comp != ay.Comp {
				eq = tBool(false)
			}
			if x.Op == token.NEQ {
				eq = tNot(eq)
			}
			fe.setVal(x, eq)
			return
		}
	}
	a := fe.valAs(x.X, x.Y.Type())
	b := fe.valAs(x.Y, x.X.Type())
	if a.Sort != b.Sort && x.Op != token.SHL && x.Op != token.SHR {
		engErr("%s: binop %s on sorts %s, %s", fe.name, x.Op, a.Sort, b.Sort)
	}
	r := func(op string, s Sort) { fe.setVal(x, Term{app(op, a, b), s}) }
	switch a.Sort {
	case SInt:
		switch x.Op {
		case token.ADD:
			r("+", SInt)
		case token.SUB:
			r("-", SInt)
		case token.MUL:
			r("*", SInt)
		case token.QUO:
			fe.emit("safety.divzero", fe.srcLabel(x.Pos(), "binop"), path, tNot(tEq(b, tInt(0))), "integer division by zero", x.Pos())
			r("goquo", SInt)
		case token.REM:
			fe.emit("safety.divzero", fe.srcLabel(x.Pos(), "binop"), path, tNot(tEq(b, tInt(0))), "integer division by zero", x.Pos())
			r("gorem", SInt)
		case token.EQL:
			r("=", SBool)
		case token.NEQ:
			fe.setVal(x, tNot(tEq(a, b)))
		case token.LSS:
			r("<", SBool)
		case token.LEQ:
			r("<=", SBool)
		case token.GTR:
			r(">", SBool)
		case token.GEQ:
			r(">=", SBool)
		default:
			engErr("%s: int binop %s", fe.name, x.Op)
		}
	case SBV64:
		switch x.Op {
		case token.ADD:
			r("bvadd", SBV64)
			if c, ok := x.Y.(*ssa.Const); ok && c.Value != nil {
				if d, ok := constant.Int64Val(constant.ToInt(c.Value)); ok {
					fe.bvOffsets[f.vals[x].S] = bvOffset{a, d}
				}
			}
		case token.SUB:
			r("bvsub", SBV64)
			if c, ok := x.Y.(*ssa.Const); ok && c.Value != nil {
				if d, ok := constant.Int64Val(constant.ToInt(c.Value)); ok {
					fe.bvOffsets[f.vals[x].S] = bvOffset{a, -d}
				}
			}
		case token.MUL:
			r("bvmul", SBV64)
		case token.AND:
			r("bvand", SBV64)
		case token.OR:
			r("bvor", SBV64)
		case token.XOR:
			r("bvxor", SBV64)
		case token.SHL, token.SHR:
			if b.Sort != SBV64 {
				engErr("shift count of sort %s", b.Sort)
			}
			if bt, ok := x.Y.Type().Underlying().(*types.Basic); ok && bt.Info()&types.IsUnsigned == 0 {
				fe.emit("safety.shift", fe.srcLabel(x.Pos(), "binop"), path, Term{"(bvsge " + b.S + " #x0000000000000000)", SBool}, "shift count is not negative", x.Pos())
			}
			if x.Op == token.SHL {
				r("bvshl", SBV64)
			} else {
				r("bvashr", SBV64)
			}
		case token.QUO:
			fe.emit("safety.divzero", fe.srcLabel(x.Pos(), "binop"), path, tNot(tEq(b, tBV64(0))), "integer division by zero", x.Pos())
			r("bvsdiv", SBV64)
		case token.REM:
			fe.emit("safety.divzero", fe.srcLabel(x.Pos(), "binop"), path, tNot(tEq(b, tBV64(0))), "integer division by zero", x.Pos())
			r("bvsrem", SBV64)
		case token.EQL:
			r("=", SBool)
		case token.NEQ:
			fe.setVal(x, tNot(tEq(a, b)))
		case token.LSS:
			r("bvslt", SBool)
		case token.LEQ:
			r("bvsle", SBool)
		case token.GTR:
			r("bvsgt", SBool)
		case token.GEQ:
			r("bvsge", SBool)
		default:
			engErr("bv binop %s", x.Op)
		}
	case SF64:
		rm := func(op string) { fe.setVal(x, Term{"(" + op + " RNE " + a.S + " " + b.S + ")", SF64}) }
		switch x.Op {
		case token.ADD:
			rm("fp.add")
		case token.SUB:
			rm("fp.sub")
		case token.MUL:
			rm("fp.mul")
		case token.QUO:
			rm("fp.div")
		case token.EQL:
			r("fp.eq", SBool)
		case token.NEQ:
			fe.setVal(x, tNot(Term{app("fp.eq", a, b), SBool}))
		case token.LSS:
			r("fp.lt", SBool)
		case token.LEQ:
			r("fp.leq", SBool)
		case token.GTR:
			r("fp.gt", SBool)
		case token.GEQ:
			r("fp.geq", SBool)
		default:
			engErr("fp binop %s", x.Op)
		}
	case SStr:
		switch x.Op {
		case token.ADD:
			r("str.cat", SStr)
		case token.EQL:
			r("=", SBool)
		case token.NEQ:
			fe.setVal(x, tNot(tEq(a, b)))
		default:
			engErr("string binop %s", x.Op)
		}
	case SBool:
		switch x.Op {
		case token.EQL:
			r("=", SBool)
		case token.NEQ:
			fe.setVal(x, tNot(tEq(a, b)))
		default:
			engErr("bool binop %s", x.Op)
		}
	case SVal:
		isNilConst := func(v ssa.Value) bool { c, ok := v.(*ssa.Const); return ok && c.Value == nil }
		var eq Term
		if isNilConst(x.X) || isNilConst(x.Y) {
			eq = tEq(a, b)
		} else {
			fe.emit("safety.ifaceeq", fe.srcLabel(x.Pos(), "binop"), path, tNot(sameUncomparableKind(a, b)), "interface comparison of uncomparable dynamic types panics", x.Pos())
			eq = ifaceEq(a, b)
		}
		if x.Op == token.EQL {
			fe.setVal(x, eq)
		} else if x.Op == token.NEQ {
			fe.setVal(x, tNot(eq))
		} else {
			engErr("iface binop %s", x.Op)
		}
	case SSlice:
		// comparison with nil only
		eq := tEq(slRef(a), slRef(b))
		if x.Op == token.EQL {
			fe.setVal(x, eq)
		} else {
			fe.setVal(x, tNot(eq))
		}
	default:
		engErr("%s: binop %s on sort %s", fe.name, x.Op, a.Sort)
	}
}

func (fe *FuncEnc) doConvert(f *Frame, x *ssa.Convert, st *State, path Term) {
	so := fe.eng.sorts
	v := fe.val(x.X)
	from, to := x.X.Type().Underlying(), x.Type().Underlying()
	fs, ts := so.sortOf(x.X.Type()), so.sortOf(x.Type())
	switch {
	case fs == SBV64 && ts == SF64:
		fe.setVal(x, Term{"(ofInt " + v.S + ")", SF64})
	case fs == SF64 && ts == SBV64:
		fe.setVal(x, Term{"(f2i64 " + v.S + ")", SBV64})
		fe.assumes["float64->int64 conversion follows amd64 CVTTSD2SI (out-of-range and NaN give 0x8000000000000000)"] = true
	case fs == SInt && ts == SF64:
		fe.setVal(x, Term{"((_ to_fp 11 53) RNE (to_real " + v.S + "))", SF64})
	case fs == SBV64 && ts == SInt:
		fe.setVal(x, fe.s2i(v))
	case fs == SInt && ts == SBV64:
		t := Term{"(i2s " + v.S + ")", SBV64}
		fe.setVal(x, t)
		fe.assume(tBool(true), tEq(fe.s2i(f.vals[x]), v))
	case fs == SInt && ts == SInt, fs == SF64 && ts == SF64, fs == SStr && ts == SStr:
		fe.setVal(x, v)
	case fs == SSlice && ts == SStr && isByteSliceU(from):
		e := fe.comp(st, "E_Int", arrSort(SInt, arrSort(SInt, SInt)))
		fe.setVal(x, Term{fmt.Sprintf("(ext.bytes2str (select %s (s.ref %s)) (s.off %s) (s.len %s))", e.S, v.S, v.S, v.S), SStr})
	case fs == SSlice && ts == SStr:
		// []rune -> string
		if !isRuneSliceU(from) {
			engErr("%s: conversion %s -> string", fe.name, x.X.Type())
		}
		e := fe.comp(st, "E_Int", arrSort(SInt, arrSort(SInt, SInt)))
		fe.setVal(x, Term{fmt.Sprintf("(str.of (select %s (s.ref %s)) (s.off %s) (s.len %s))", e.S, v.S, v.S, v.S), SStr})
	case fs == SStr && ts == SSlice:
		if !isRuneSliceU(to) {
			engErr("%s: conversion string -> %s", fe.name, x.Type())
		}
		ref := fe.allocRef(st, "A_E_Int", path)
		e := fe.comp(st, "E_Int", arrSort(SInt, arrSort(SInt, SInt)))
		row := fe.fresh("runes", arrSort(SInt, SInt))
		fe.assume(tBool(true), Term{fmt.Sprintf("(forall ((k Int)) (! (=> (and (<= 0 k) (< k (cplen %s))) (= (select %s k) (cp %s k))) :pattern ((select %s k))))", v.S, row.S, v.S, row.S), SBool})
		fe.setComp(st, "E_Int", tStore(e, ref, row))
		ln := Term{"(cplen " + v.S + ")", SInt}
		fe.setVal(x, mkSlice(ref, tInt(0), ln, ln))
	default:
		engErr("%s: unsupported conversion %s -> %s", fe.name, x.X.Type(), x.Type())
	}
}

func isRuneSliceU(t types.Type) bool {
	s, ok := t.(*types.Slice)
	if !ok {
		return false
	}
	b, ok := s.Elem().Underlying().(*types.Basic)
	return ok && b.Kind() == types.Int32
}

func (fe *FuncEnc) doSlice(f *Frame, x *ssa.Slice, st *State, path Term) {
	get := func(v ssa.Value, def Term) Term {
		if v == nil {
			return def
		}
		return fe.intIndex(fe.val(v), path)
	}
	switch t := x.X.Type().Underlying().(type) {
	case *types.Slice:
		s := fe.val(x.X)
		lo := get(x.Low, tInt(0))
		hi := get(x.High, slLen(s))
		mx := get(x.Max, slCap(s))
		fe.emit("safety.slice", fe.srcLabel(x.Pos(), "slice"), path, tAnd(tLe(tInt(0), lo), tLe(lo, hi), tLe(hi, mx), tLe(mx, slCap(s))), "slice bounds in range", x.Pos())
		fe.setVal(x, mkSlice(slRef(s), tAdd(slOff(s), lo), tSub(hi, lo), tSub(mx, lo)))
	case *types.Pointer:
		arr := t.Elem().Underlying().(*types.Array)
		ref := fe.val(x.X)
		n := tInt(arr.Len())
		lo := get(x.Low, tInt(0))
		hi := get(x.High, n)
		mx := get(x.Max, n)
		fe.emit("safety.slice", fe.srcLabel(x.Pos(), "slice"), path, tAnd(tLe(tInt(0), lo), tLe(lo, hi), tLe(hi, mx), tLe(mx, n)), "slice bounds in range", x.Pos())
		fe.setVal(x, mkSlice(ref, lo, tSub(hi, lo), tSub(mx, lo)))
		if isVarargsAlloc(x.X) && arr.Len() <= 8 {
			// name the cells of a small variadic list: the ground select terms let quantified callee contracts instantiate
			es := fe.eng.sorts.sortOf(arr.Elem())
			comp := fe.eng.arrayComp(x.X, arr.Elem())
			e := fe.comp(st, comp, arrSort(SInt, arrSort(SInt, es)))
			for k := int64(0); k < arr.Len(); k++ {
				c := fe.fresh("va", es)
				fe.addItem("(assert (= "+c.S+" "+tSelect(tSelect(e, ref), tInt(k)).S+"))", "")
			}
		}
	default:
		engErr("%s: slice of %s", fe.name, x.X.Type())
	}
}

func (fe *FuncEnc) mapStore(st *State, mt *types.Map, m, k, v Term) {
	so := fe.eng.sorts
	key := fe.mapKey(mt)
	ks, vs := so.sortOf(mt.Key()), so.sortOf(mt.Elem())
	md := fe.comp(st, "MD_"+key, arrSort(SInt, arrSort(ks, SBool)))
	mv := fe.comp(st, "MV_"+key, arrSort(SInt, arrSort(ks, vs)))
	mc := fe.comp(st, "MC_"+key, arrSort(SInt, SInt))
	had := tSelect(tSelect(md, m), k)
	fe.setComp(st, "MC_"+key, tStore(mc, m, tAdd(tSelect(mc, m), tIte(had, tInt(0), tInt(1)))))
	fe.setComp(st, "MD_"+key, tStore(md, m, tStore(tSelect(md, m), k, tBool(true))))
	fe.setComp(st, "MV_"+key, tStore(mv, m, tStore(tSelect(mv, m), k, v)))
}

func (fe *FuncEnc) mapDelete(st *State, mt *types.Map, m, k Term) {
	so := fe.eng.sorts
	key := fe.mapKey(mt)
	ks := so.sortOf(mt.Key())
	md := fe.comp(st, "MD_"+key, arrSort(SInt, arrSort(ks, SBool)))
	mc := fe.comp(st, "MC_"+key, arrSort(SInt, SInt))
	had := tSelect(tSelect(md, m), k)
	fe.setComp(st, "MC_"+key, tStore(mc, m, tSub(tSelect(mc, m), tIte(had, tInt(1), tInt(0)))))
	fe.setComp(st, "MD_"+key, tStore(md, m, tStore(tSelect(md, m), k, tBool(false))))
}

func (fe *FuncEnc) doRange(f *Frame, x *ssa.Range, st *State, path Term) {
	id := fmt.Sprintf("%s_%s", sanitize(fe.eng.fnames[f.fn]), x.Name())
	info := &mapRangeInfo{visComp: id}
	switch t := x.X.Type().Underlying().(type) {
	case *types.Map:
		fe.nondetMapRange(f, x, path)
		info.m = fe.val(x.X)
		info.mapType = t
		ks := fe.eng.sorts.sortOf(t.Key())
		fe.eng.noteComp("RV_"+id, arrSort(ks, SBool))
		st.heap["RV_"+id] = Term{"((as const " + string(arrSort(ks, SBool)) + ") false)", arrSort(ks, SBool)}
	case *types.Basic:
		info.isStr = true
		info.str = fe.val(x.X)
	default:
		engErr("range over %s", x.X.Type())
	}
	fe.eng.noteComp("RN_"+id, SInt)
	st.heap["RN_"+id] = tInt(0)
	f.mapRange[x] = info
	f.vals[x] = tInt(0)
}

func (fe *FuncEnc) doNext(f *Frame, x *ssa.Next, st *State, path Term) {
	info := f.mapRange[x.Iter]
	if info == nil {
		engErr("%s: Next on unknown iterator", fe.name)
	}
	id := info.visComp
	n := fe.comp(st, "RN_"+id, SInt)
	if info.isStr {
		ok := fe.define("ok", tLt(n, Term{"(cplen " + info.str.S + ")", SInt}))
		idx := fe.fresh("bytepos", SInt)
		r := fe.define("r", Term{fmt.Sprintf("(cp %s %s)", info.str.S, n.S), SInt})
		fe.assume(path, Term{fmt.Sprintf("(and (<= 0 %s) (<= %s 1114111))", r.S, r.S), SBool})
		st.heap["RN_"+id] = fe.define("RN", tAdd(n, tInt(1)))
		f.tuples[x] = []Term{ok, idx, r}
		return
	}
	so := fe.eng.sorts
	mt := info.mapType
	key := fe.mapKey(mt)
	ks, vs := so.sortOf(mt.Key()), so.sortOf(mt.Elem())
	md := fe.comp(st, "MD_"+key, arrSort(SInt, arrSort(ks, SBool)))
	mv := fe.comp(st, "MV_"+key, arrSort(SInt, arrSort(ks, vs)))
	mc := fe.comp(st, "MC_"+key, arrSort(SInt, SInt))
	vis := fe.comp(st, "RV_"+id, arrSort(ks, SBool))
	ok := fe.define("ok", tLt(n, tSelect(mc, info.m)))
	k := fe.fresh("key", ks)
	fe.assume(path, tImp(ok, tAnd(tSelect(tSelect(md, info.m), k), tNot(tSelect(vis, k)))))
	v := fe.define("val", tSelect(tSelect(mv, info.m), k))
	fe.assume(path, tImp(ok, fe.wf(v, mt.Elem(), st)))
	fe.mapCellAssume(f, mt, info.m, k, v, ok, st, path)
	st.heap["RV_"+id] = fe.define("RV", tStore(vis, k, tBool(true)))
	st.heap["RN_"+id] = fe.define("RN", tAdd(n, tInt(1)))
	f.tuples[x] = []Term{ok, k, v}
	fe.assumes["map iteration yields an arbitrary not-yet-visited key per step (Go's unspecified order); termination of the range by cardinality"] = true
}

// rangeLimit: for go/ssa's rangeindex idiom (phi; inc = phi+1; inc < len) returns the len value, defined before the loop.
func rangeLimit(h *ssa.BasicBlock, phi *ssa.Phi) ssa.Value {
	var inc ssa.Value
	for _, in := range h.Instrs {
		if b, ok := in.(*ssa.BinOp); ok {
			if b.Op == token.ADD && b.X == ssa.Value(phi) {
				inc = b
			}
			if b.Op == token.LSS && inc != nil && b.X == inc {
				if c, isCall := b.Y.(*ssa.Call); isCall && c.Block() != h {
					// the limit must not be negative for the entry edge: len(...) of a slice never is
					if bi, ok := c.Common().Value.(*ssa.Builtin); ok && bi.Name() == "len" {
						return b.Y
					}
				}
			}
		}
	}
	return nil
}

func isByteSliceU(t types.Type) bool {
	s, ok := t.(*types.Slice)
	if !ok {
		return false
	}
	b, ok := s.Elem().Underlying().(*types.Basic)
	return ok && (b.Kind() == types.Uint8)
}
