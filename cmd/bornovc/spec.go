package main

// Contract files (//@ comments behind the build tag) and the spec-expression evaluator.

import (
	"regexp"
	"bufio"
	"fmt"
	"go/ast"
	"go/constant"
	"go/parser"
	"go/printer"
	"go/token"
	"go/types"
	"os"
	"path/filepath"
	"strconv"
	"strings"

	"golang.org/x/tools/go/ssa"
)

type Clause struct {
	CaseType ast.Expr // "case T:" prefix: the clause speaks about the type-switch case T only
	Label    string
	Text     string
	Expr     ast.Expr
	Props    []string
	Line     string // file:line of the clause
	anyCand  bool   // a `rejects` reason: if a local it names was renamed beyond recovery, it may hold of any well-sorted candidate
}

type LoopContract struct {
	Invariants []*Clause
	Decreases  []*Clause
	At         string
	OrderFree  string // reason why the iteration order of a map range cannot influence the outcome
}

type Contract struct {
	Func      string
	Pkg       string
	Props     []string
	Requires  []*Clause
	Ensures   []*Clause
	Loops     map[int]*LoopContract
	Inline    bool
	Trusted   bool
	Decreases []*Clause
	RuleName  string
	RecvName  string // receiver name used in the contract header: clauses may use it whatever the code calls the receiver now
	File      string
	Reveal    []string
	Lets      map[string]ast.Expr
	Assumes   []*Clause // trusted postconditions: assumed at call sites, never proved, listed in the evidence
	Unreachable string // `unreachable <reason>`: the body is not verified; every caller must be excluded by a precondition
	Globals   []string  // `globals a.X b.Y`: the only package-level variables the function may write (transitively)
	HasGlobals bool
	mentioned map[string]bool
	Defines   []*Clause // conservative definitions of otherwise uninterpreted predicates: assumed at entry of the function
	Rejects   []*Clause // `rejects <cond>`: the only reasons for which the function itself may call a rejector (refuse its input)
	Rejector  bool      // `rejector`: a call of this function refuses the input; a direct caller must state its reason (`rejects`)
}

// serves: does any clause of the contract carry the property tag (an engine error in such a function leaves the
// property undecided and must fail its check).
func (c *Contract) serves(prop string) bool {
	if contains(c.Props, prop) {
		return true
	}
	var all []*Clause
	all = append(all, c.Requires...)
	all = append(all, c.Ensures...)
	all = append(all, c.Decreases...)
	for _, l := range c.Loops {
		all = append(all, l.Invariants...)
		all = append(all, l.Decreases...)
	}
	for _, cl := range all {
		if contains(cl.Props, prop) {
			return true
		}
	}
	return false
}

type Lemma struct {
	Name  string
	Props []string
	Expr  *Clause
	Pkg   string
}

type CellInv struct {
	Comp string // component prefix, e.g. MV_Str_Val or E_Val or H_ast_Literal_Value
	Var  string
	Expr *Clause
	Pkg  string
}

type TableDecl struct{}

type TV struct {
	T   Term
	Typ types.Type // may be nil for spec-only sorts
}

// ---------------------------------------------------------------------
// parsing

func parseTags(s string) (rest string, tags []string) {
	s = strings.TrimSpace(s)
	if i := strings.LastIndex(s, "["); i >= 0 && strings.HasSuffix(s, "]") {
		inner := s[i+1 : len(s)-1]
		ok := true
		for _, t := range strings.Split(inner, ",") {
			t = strings.TrimSpace(t)
			if len(t) < 3 || t[0] != 'C' {
				ok = false
			}
		}
		if ok {
			for _, t := range strings.Split(inner, ",") {
				tags = append(tags, strings.TrimSpace(t))
			}
			return strings.TrimSpace(s[:i]), tags
		}
	}
	return s, nil
}

func parseLabel(s string) (label, rest string) {
	s = strings.TrimSpace(s)
	if strings.HasPrefix(s, "[") {
		if i := strings.Index(s, "]"); i > 0 {
			return strings.TrimSpace(s[1:i]), strings.TrimSpace(s[i+1:])
		}
	}
	return "", s
}

// rewriteImplies turns `a ==> b` (right associative, lowest precedence) into implies(a, b).
func rewriteImplies(s string) string {
	depth := 0
	inStr := false
	for i := 0; i+2 < len(s); i++ {
		c := s[i]
		if c == '"' {
			inStr = !inStr
		}
		if inStr {
			continue
		}
		if c == '(' || c == '[' {
			depth++
		} else if c == ')' || c == ']' {
			depth--
		} else if depth == 0 && strings.HasPrefix(s[i:], "==>") {
			return "implies(" + rewriteImplies(s[:i]) + ", " + rewriteImplies(s[i+3:]) + ")"
		}
	}
	// recurse into parenthesised groups
	var sb strings.Builder
	i := 0
	for i < len(s) {
		if s[i] == '(' {
			// find matching
			d := 0
			j := i
			for ; j < len(s); j++ {
				if s[j] == '(' {
					d++
				} else if s[j] == ')' {
					d--
					if d == 0 {
						break
					}
				}
			}
			if j >= len(s) {
				sb.WriteString(s[i:])
				break
			}
			inner := s[i+1 : j]
			if strings.Contains(inner, "==>") {
				// split top-level commas
				parts := splitCommas(inner)
				for k, p := range parts {
					parts[k] = rewriteImplies(p)
				}
				sb.WriteString("(" + strings.Join(parts, ",") + ")")
			} else {
				sb.WriteString(s[i : j+1])
			}
			i = j + 1
			continue
		}
		sb.WriteByte(s[i])
		i++
	}
	return sb.String()
}

func splitCommas(s string) []string {
	var out []string
	depth := 0
	start := 0
	inStr := false
	for i := 0; i < len(s); i++ {
		switch c := s[i]; {
		case c == '"':
			inStr = !inStr
		case inStr:
		case c == '(' || c == '[' || c == '{':
			depth++
		case c == ')' || c == ']' || c == '}':
			depth--
		case c == ',' && depth == 0:
			out = append(out, s[start:i])
			start = i + 1
		}
	}
	out = append(out, s[start:])
	return out
}

func mkClause(text string, where string, n int, kind string) (*Clause, error) {
	label, rest := parseLabel(text)
	rest, tags := parseTags(rest)
	if label == "" {
		label = fmt.Sprintf("%s%d", kind, n)
	}
	var caseType ast.Expr
	if strings.HasPrefix(rest, "case ") {
		if i := strings.Index(rest, ":"); i > 0 {
			ct, err := parser.ParseExpr(strings.TrimSpace(rest[5:i]))
			if err != nil {
				return nil, fmt.Errorf("%s: cannot parse case type %q: %v", where, rest[5:i], err)
			}
			caseType = ct
			rest = strings.TrimSpace(rest[i+1:])
		}
	}
	ex, err := parser.ParseExpr(rewriteImplies(rest))
	if err != nil {
		return nil, fmt.Errorf("%s: cannot parse %q: %v", where, rest, err)
	}
	return &Clause{Label: label, Text: rest, Expr: ex, Props: tags, Line: where, CaseType: caseType}, nil
}

func (e *Engine) loadContracts() error {
	for _, p := range e.pkgs {
		if !strings.HasPrefix(p.PkgPath, repoModule) {
			continue
		}
		pkgShort := strings.TrimPrefix(strings.TrimPrefix(p.PkgPath, repoModule), "/")
		if pkgShort == "" {
			pkgShort = "main"
		}
		dir := e.snapDir
		if pkgShort != "main" {
			dir = filepath.Join(e.snapDir, pkgShort)
		}
		files, _ := filepath.Glob(filepath.Join(dir, "contracts*_verif.go"))
		for _, file := range files {
			if err := e.parseContractFile(file, pkgShort); err != nil {
				return err
			}
		}
	}
	return nil
}

func (e *Engine) parseContractFile(file, pkg string) error {
	fh, err := os.Open(file)
	if err != nil {
		return err
	}
	defer fh.Close()
	sc := bufio.NewScanner(fh)
	sc.Buffer(make([]byte, 1<<20), 1<<20)
	var cur *Contract
	var curLoop *LoopContract
	var lastClause *Clause
	var lastRaw *string
	rel := strings.TrimPrefix(file, e.snapDir+"/")
	ln := 0
	type pending struct {
		c    *Clause
		raw  string
		kind string
	}
	var pend []*pending
	_ = lastClause
	flush := func() error {
		for _, p := range pend {
			c, err := mkClause(p.raw, p.c.Line, 0, p.kind)
			if err != nil {
				return err
			}
			lbl := p.c.Label
			*p.c = *c
			if strings.HasPrefix(c.Label, p.kind+"0") {
				p.c.Label = lbl
			}
		}
		pend = nil
		return nil
	}
	for sc.Scan() {
		ln++
		line := strings.TrimSpace(sc.Text())
		if !strings.HasPrefix(line, "//@") {
			continue
		}
		body := strings.TrimSpace(strings.TrimPrefix(line, "//@"))
		where := fmt.Sprintf("%s:%d", rel, ln)
		if body == "" {
			continue
		}
		if strings.HasPrefix(body, "+") {
			if lastRaw == nil {
				return fmt.Errorf("%s: continuation without clause", where)
			}
			*lastRaw += " " + strings.TrimSpace(body[1:])
			continue
		}
		word := body
		rest := ""
		if i := strings.IndexAny(body, " \t"); i > 0 {
			word, rest = body[:i], strings.TrimSpace(body[i:])
		}
		addClause := func(list *[]*Clause, kind string) {
			c := &Clause{Line: where, Label: fmt.Sprintf("%s%d", kind, len(*list)+1)}
			p := &pending{c: c, raw: rest, kind: kind}
			pend = append(pend, p)
			lastRaw = &p.raw
			*list = append(*list, c)
		}
		switch word {
		case "func", "iface":
			hdr, tags := parseTags(rest)
			cur = &Contract{Pkg: pkg, Props: tags, Loops: map[int]*LoopContract{}, File: rel}
			curLoop = nil
			name := hdr
			if strings.HasPrefix(hdr, "(") {
				// (s *Scanner) identifier
				i := strings.Index(hdr, ")")
				recv := strings.Fields(strings.Trim(hdr[1:i], " "))
				tn := strings.TrimPrefix(recv[len(recv)-1], "*")
				name = tn + "." + strings.TrimSpace(hdr[i+1:])
				if len(recv) == 2 {
					cur.RecvName = recv[0]
				}
			}
			cur.Func = pkg + "." + name
			if word == "iface" {
				e.ifaceCons[cur.Func] = cur
			} else {
				if _, dup := e.contracts[cur.Func]; dup {
					return fmt.Errorf("%s: duplicate contract for %s", where, cur.Func)
				}
				e.contracts[cur.Func] = cur
			}
		case "requires":
			if cur == nil {
				return fmt.Errorf("%s: clause outside a func block", where)
			}
			addClause(&cur.Requires, "requires")
		case "ensures":
			if cur == nil {
				return fmt.Errorf("%s: clause outside a func block", where)
			}
			addClause(&cur.Ensures, "ensures")
		case "defines":
			if cur == nil {
				return fmt.Errorf("%s: clause outside a func block", where)
			}
			addClause(&cur.Defines, "defines")
		case "assumes":
			if cur == nil {
				return fmt.Errorf("%s: clause outside a func block", where)
			}
			addClause(&cur.Assumes, "assumes")
		case "let":
			i := strings.Index(rest, "=")
			if i < 0 || cur == nil {
				return fmt.Errorf("%s: bad let", where)
			}
			ex, err := parser.ParseExpr(rewriteImplies(strings.TrimSpace(rest[i+1:])))
			if err != nil {
				return fmt.Errorf("%s: cannot parse let: %v", where, err)
			}
			if cur.Lets == nil {
				cur.Lets = map[string]ast.Expr{}
			}
			cur.Lets[strings.TrimSpace(rest[:i])] = ex
		case "inline":
			cur.Inline = true
		case "rejector":
			cur.Rejector = true
		case "rejects":
			addClause(&cur.Rejects, "rejects")
		case "globals":
			cur.HasGlobals = true
			for _, g := range strings.Fields(rest) {
				cur.Globals = append(cur.Globals, "G_"+sanitize(strings.Replace(g, ".", "_", 1)))
			}
		case "unreachable":
			cur.Unreachable = strings.TrimSpace(rest)
			if cur.Unreachable == "" {
				cur.Unreachable = "declared"
			}
		case "reveal":
			cur.Reveal = append(cur.Reveal, strings.Fields(rest)...)
		case "trusted":
			cur.Trusted = true
		case "rule":
			cur.RuleName = strings.TrimSpace(rest)
		case "loop":
			n, err := strconv.Atoi(strings.TrimSuffix(strings.TrimSpace(rest), ":"))
			if err != nil {
				return fmt.Errorf("%s: bad loop ordinal %q", where, rest)
			}
			curLoop = &LoopContract{}
			cur.Loops[n] = curLoop
		case "invariant":
			if curLoop == nil {
				return fmt.Errorf("%s: invariant outside a loop block", where)
			}
			addClause(&curLoop.Invariants, "invariant")
		case "decreases":
			if curLoop != nil {
				addClause(&curLoop.Decreases, "decreases")
			} else if cur != nil {
				// lexicographic measure: one clause per component
				for _, part := range splitCommas(rest) {
					c := &Clause{Line: where, Label: fmt.Sprintf("decreases%d", len(cur.Decreases)+1)}
					p := &pending{c: c, raw: strings.TrimSpace(part), kind: "decreases"}
					pend = append(pend, p)
					lastRaw = &p.raw
					cur.Decreases = append(cur.Decreases, c)
				}
			}
		case "orderfree":
			if curLoop != nil {
				curLoop.OrderFree = strings.TrimSpace(rest)
				if curLoop.OrderFree == "" {
					curLoop.OrderFree = "declared"
				}
			}
		case "at", "interpreted":
			if curLoop != nil {
				if word == "interpreted" {
					curLoop.At = "interpreted"
				} else {
					curLoop.At = strings.TrimSpace(rest)
				}
			}
		case "spec":
			// spec NAME(p1 Sort1, p2 Sort2) Sort = expr
			eq := strings.Index(rest, " = ")
			lp := strings.Index(rest, "(")
			rp := strings.Index(rest, ")")
			if eq < 0 || lp < 0 || rp < lp || rp > eq {
				return fmt.Errorf("%s: bad spec definition", where)
			}
			sd := &SpecDef{Name: strings.TrimSpace(rest[:lp]), Result: Sort(strings.TrimSpace(rest[rp+1 : eq])), Pkg: pkg, Where: where}
			for _, prm := range splitCommas(rest[lp+1 : rp]) {
				f := strings.Fields(prm)
				if len(f) == 2 {
					sd.Params = append(sd.Params, f[0])
					sd.Sorts = append(sd.Sorts, Sort(f[1]))
				}
			}
			ex, err := parser.ParseExpr(rewriteImplies(strings.TrimSpace(rest[eq+3:])))
			if err != nil {
				return fmt.Errorf("%s: cannot parse spec body: %v", where, err)
			}
			sd.Body = ex
			sd.Text = strings.TrimSpace(rest[eq+3:])
			e.specDefs = append(e.specDefs, sd)
		case "globalinv":
			// globalinv VARNAME m: expr   (m is the value of the package variable VARNAME of this package)
			i := strings.Index(rest, ":")
			if i < 0 {
				return fmt.Errorf("%s: bad globalinv", where)
			}
			hd := strings.Fields(rest[:i])
			if len(hd) != 2 {
				return fmt.Errorf("%s: bad globalinv header", where)
			}
			gi := &CellInv{Comp: "G_" + sanitize(pkg) + "_" + sanitize(hd[0]), Var: hd[1], Pkg: pkg}
			c := &Clause{Line: where, Label: "globalinv." + hd[0]}
			p := &pending{c: c, raw: rest[i+1:], kind: "globalinv"}
			pend = append(pend, p)
			lastRaw = &p.raw
			gi.Expr = c
			e.globalinvs = append(e.globalinvs, gi)
		case "typeinv":
			// typeinv pkg.Type v: expr   (v is a non-nil *pkg.Type)
			i := strings.Index(rest, ":")
			if i < 0 {
				return fmt.Errorf("%s: bad typeinv", where)
			}
			hd := strings.Fields(rest[:i])
			if len(hd) != 2 {
				return fmt.Errorf("%s: bad typeinv header", where)
			}
			ti := &CellInv{Comp: hd[0], Var: hd[1], Pkg: pkg}
			c := &Clause{Line: where, Label: "typeinv." + hd[0]}
			p := &pending{c: c, raw: rest[i+1:], kind: "typeinv"}
			pend = append(pend, p)
			lastRaw = &p.raw
			ti.Expr = c
			e.typeinvs = append(e.typeinvs, ti)
		case "cellinv":
			// cellinv COMP v: expr
			i := strings.Index(rest, ":")
			if i < 0 {
				return fmt.Errorf("%s: bad cellinv", where)
			}
			hd := strings.Fields(rest[:i])
			if len(hd) != 2 {
				return fmt.Errorf("%s: bad cellinv header", where)
			}
			ci := &CellInv{Comp: hd[0], Var: hd[1], Pkg: pkg}
			c := &Clause{Line: where, Label: "cell." + hd[0]}
			p := &pending{c: c, raw: rest[i+1:], kind: "cell"}
			pend = append(pend, p)
			lastRaw = &p.raw
			ci.Expr = c
			e.cellinvs = append(e.cellinvs, ci)
		case "lemma":
			i := strings.Index(rest, ":")
			if i < 0 {
				return fmt.Errorf("%s: bad lemma", where)
			}
			hd, tags := parseTags(rest[:i])
			c := &Clause{Line: where, Label: strings.TrimSpace(hd), Props: tags}
			p := &pending{c: c, raw: rest[i+1:], kind: "lemma"}
			pend = append(pend, p)
			lastRaw = &p.raw
			e.lemmas = append(e.lemmas, &Lemma{Name: strings.TrimSpace(hd), Props: tags, Expr: c, Pkg: pkg})
		default:
			return fmt.Errorf("%s: unknown contract keyword %q", where, word)
		}
	}
	return flush()
}

// ---------------------------------------------------------------------
// spec function table (from the prelude .smt2 files)

type SpecSig struct {
	Name   string
	Params []Sort
	Result Sort
	Heap   []string // heap components passed implicitly (before the explicit arguments)
	Unfold bool     // instantiate NAME$def at every ground occurrence
}

type SpecTable struct {
	sigs   map[string]*SpecSig
	text   string
	opaque []string
}

func normSort(s string) Sort {
	s = strings.Join(strings.Fields(s), " ")
	switch s {
	case "(_ FloatingPoint 11 53)":
		return SF64
	case "(_ BitVec 64)":
		return SBV64
	}
	return Sort(s)
}

func loadSpecTable(dir string) (*SpecTable, error) {
	st := &SpecTable{sigs: map[string]*SpecSig{}}
	files, _ := filepath.Glob(filepath.Join(dir, "*.smt2"))
	var sb strings.Builder
	for _, f := range files {
		b, err := os.ReadFile(f)
		if err != nil {
			return nil, err
		}
		sb.WriteString("; ---- " + filepath.Base(f) + "\n")
		sb.Write(b)
		sb.WriteString("\n")
	}
	st.text = sb.String()
	st.scan(basePrelude + extraPrelude)
	st.scan(st.text)
	return st, nil
}

func (st *SpecTable) scan(text string) {
	// heap directives
	for _, line := range strings.Split(text, "\n") {
		line = strings.TrimSpace(line)
		if strings.HasPrefix(line, ";@unfold ") {
			for _, n := range strings.Fields(line)[1:] {
				st.get(n).Unfold = true
			}
		}
		if strings.HasPrefix(line, ";@opaque ") {
			st.opaque = append(st.opaque, strings.Fields(line)[1:]...)
		}
		if strings.HasPrefix(line, ";@heap ") {
			fs := strings.Fields(line)[1:]
			if len(fs) >= 1 {
				if sig, ok := st.sigs[fs[0]]; ok {
					sig.Heap = fs[1:]
				} else {
					st.sigs[fs[0]] = &SpecSig{Name: fs[0], Heap: fs[1:]}
				}
			}
		}
	}
	// strip comments
	var sb strings.Builder
	for _, line := range strings.Split(text, "\n") {
		if i := strings.Index(line, ";"); i >= 0 {
			line = line[:i]
		}
		sb.WriteString(line + "\n")
	}
	for _, form := range splitTop(sb.String()) {
		if !strings.HasPrefix(form, "(") {
			continue
		}
		parts := splitTop(form[1 : len(form)-1])
		if len(parts) < 4 {
			continue
		}
		switch parts[0] {
		case "declare-fun":
			sig := st.get(parts[1])
			sig.Params = nil
			for _, p := range splitTop(strings.TrimSuffix(strings.TrimPrefix(parts[2], "("), ")")) {
				sig.Params = append(sig.Params, normSort(p))
			}
			sig.Result = normSort(parts[3])
		case "declare-const":
			sig := st.get(parts[1])
			sig.Result = normSort(parts[2])
		case "define-fun", "define-fun-rec":
			sig := st.get(parts[1])
			sig.Params = nil
			for _, p := range splitTop(strings.TrimSuffix(strings.TrimPrefix(parts[2], "("), ")")) {
				pp := splitTop(p[1 : len(p)-1])
				sig.Params = append(sig.Params, normSort(strings.Join(pp[1:], " ")))
			}
			sig.Result = normSort(parts[3])
		}
	}
}

func (st *SpecTable) get(name string) *SpecSig {
	if s, ok := st.sigs[name]; ok {
		return s
	}
	s := &SpecSig{Name: name}
	st.sigs[name] = s
	return s
}

// ---------------------------------------------------------------------
// evaluation

type specCtx struct {
	siteLocal bool // the clause is read at one call site (a `rejects` reason): no rename cache, no rename heuristics
	fe      *FuncEnc
	f       *Frame
	cur     *State
	old     *State
	names   map[string]TV
	results []Term
	bound   map[string]TV
	pos     token.Pos
	where   string
	real    *State
	lets    map[string]ast.Expr
	retrying bool
}

func (fe *FuncEnc) evalClause(f *Frame, c *Clause, cur, old *State, names map[string]TV, results []Term, pos token.Pos) (t Term) {
	ctx := &specCtx{fe: fe, f: f, cur: cur, old: old, names: names, results: results, bound: map[string]TV{}, pos: pos, where: c.Line, siteLocal: c.anyCand}
	if f != nil && f.fn != nil {
		if con := fe.eng.contracts[fe.eng.fnames[f.fn]]; con != nil {
			ctx.lets = con.Lets
		} else if f.borrow != nil && fe.con != nil {
			ctx.lets = fe.con.Lets // borrowed loop clauses speak the language of the lending contract
		}
	}
	defer func() {
		if r := recover(); r != nil {
			if ee, ok := r.(*EngineError); ok {
				// last resort of the rename recovery: the unknown name is bound to each unmentioned named value in turn; if the
				// clause is well-sorted for exactly one of them, that one is meant
				if m := unknownIdentRe.FindStringSubmatch(ee.msg); m != nil && !ctx.retrying {
					if tv, ok := ctx.retryWithCandidates(c, m[1]); ok {
						t = tv
						return
					}
				}
				panic(&EngineError{fmt.Sprintf("%s: in clause %q: %s", c.Line, c.Text, ee.msg)})
			}
			panic(r)
		}
	}()
	tv := ctx.eval(c.Expr)
	if tv.T.Sort != SBool && len(c.Label) >= 0 && !strings.HasPrefix(c.Label, "decreases") && c.Label != "variant" {
		// decreases clauses are Int-valued
		if tv.T.Sort == SInt {
			return tv.T
		}
		engErr("clause is not boolean (sort %s)", tv.T.Sort)
	}
	return tv.T
}

func (c *specCtx) state(old bool) *State {
	if old {
		return c.old
	}
	return c.cur
}

func (c *specCtx) eval(e ast.Expr) TV {
	fe := c.fe
	so := fe.eng.sorts
	switch x := e.(type) {
	case *ast.ParenExpr:
		return c.eval(x.X)
	case *ast.BasicLit:
		switch x.Kind {
		case token.INT:
			v := constant.MakeFromLiteral(x.Value, token.INT, 0)
			i, _ := constant.Int64Val(v)
			return TV{tInt(i), types.Typ[types.Int]}
		case token.FLOAT:
			f, _ := strconv.ParseFloat(x.Value, 64)
			return TV{tF64(f), types.Typ[types.Float64]}
		case token.STRING:
			s, _ := strconv.Unquote(x.Value)
			return TV{fe.eng.strConst(s), types.Typ[types.String]}
		case token.CHAR:
			s, _, _, _ := strconv.UnquoteChar(x.Value[1:len(x.Value)-1], '\'')
			return TV{tInt(int64(s)), types.Typ[types.Rune]}
		}
	case *ast.Ident:
		return c.ident(x.Name)
	case *ast.SelectorExpr:
		// package-qualified?
		if id, ok := x.X.(*ast.Ident); ok {
			if _, isLocal := c.lookupName(id.Name); !isLocal {
				if tv, ok := c.pkgMember(id.Name, x.Sel.Name); ok {
					return tv
				}
			}
		}
		base := c.eval(x.X)
		return c.selectField(base, x.Sel.Name)
	case *ast.IndexExpr:
		base := c.eval(x.X)
		idx := c.eval(x.Index)
		return c.index(base, idx)
	case *ast.UnaryExpr:
		v := c.eval(x.X)
		switch x.Op {
		case token.NOT:
			return TV{tNot(v.T), types.Typ[types.Bool]}
		case token.SUB:
			switch v.T.Sort {
			case SInt:
				return TV{Term{"(- " + v.T.S + ")", SInt}, v.Typ}
			case SF64:
				return TV{Term{"(fp.neg " + v.T.S + ")", SF64}, v.Typ}
			case SBV64:
				return TV{Term{"(bvneg " + v.T.S + ")", SBV64}, v.Typ}
			}
		case token.XOR:
			if v.T.Sort == SBV64 {
				return TV{Term{"(bvnot " + v.T.S + ")", SBV64}, v.Typ}
			}
		}
		engErr("unsupported unary %s on %s", x.Op, v.T.Sort)
	case *ast.BinaryExpr:
		return c.binary(x)
	case *ast.CallExpr:
		return c.call(x)
	case *ast.StarExpr:
		v := c.eval(x.X)
		return v
	case *ast.TypeAssertExpr:
		// expr.(*ast.Binary): the payload of an interface value viewed at a concrete type
		v := c.eval(x.X)
		t := c.resolveType(x.Type)
		return TV{fe.fromVal(v.T, t), t}
	}
	_ = so
	engErr("unsupported spec expression %T", e)
	return TV{}
}

func (c *specCtx) lookupName(name string) (TV, bool) {
	if tv, ok := c.bound[name]; ok {
		return tv, true
	}
	if tv, ok := c.names[name]; ok {
		return tv, true
	}
	if c.f != nil {
		if t, ok := c.f.params[name]; ok {
			return TV{t, c.f.ptypes[name]}, true
		}
	}
	return TV{}, false
}

func (c *specCtx) resultType(i int) types.Type {
	if c.f != nil && c.f.fn != nil {
		rs := c.f.fn.Signature.Results()
		if i < rs.Len() {
			return rs.At(i).Type()
		}
	}
	return nil
}

func (c *specCtx) ident(name string) TV {
	switch name {
	case "true":
		return TV{tBool(true), types.Typ[types.Bool]}
	case "false":
		return TV{tBool(false), types.Typ[types.Bool]}
	case "nil":
		return TV{Term{"NIL", "NIL"}, nil}
	case "VNil":
		return TV{Term{"VNil", SVal}, nil}
	case "result", "result0":
		if len(c.results) >= 1 {
			return TV{c.results[0], c.resultType(0)}
		}
		if name == "result0" {
			engErr("result used outside ensures")
		}
	}
	if strings.HasPrefix(name, "result") && len(name) > 6 {
		if i, err := strconv.Atoi(name[6:]); err == nil {
			if i >= len(c.results) {
				engErr("%s out of range", name)
			}
			return TV{c.results[i], c.resultType(i)}
		}
	}
	if tv, ok := c.bound[name]; ok {
		return tv
	}
	if tv, ok := c.names[name]; ok {
		return tv
	}
	if c.lets != nil {
		if ex, ok := c.lets[name]; ok {
			return c.eval(ex)
		}
	}
	// SSA locals by source name: the closest dominating phi (or debug reference) carrying that name
	if c.f != nil && c.f.fn != nil && c.f.curBlock != nil {
		if tv, ok := c.localByName(name); ok {
			return tv
		}
	}
	if tv, ok := c.lookupName(name); ok {
		return tv
	}
	// address-taken locals by their source name
	if c.f != nil && c.f.fn != nil && c.f.vals != nil {
		var found *ssa.Alloc
		n := 0
		for _, b := range c.f.fn.Blocks {
			for _, in := range b.Instrs {
				if al, ok := in.(*ssa.Alloc); ok && al.Comment == name {
					if _, has := c.f.vals[al]; has {
						found = al
						n++
					}
				}
			}
		}
		if n == 1 {
			return TV{c.f.vals[found], found.Type()}
		}
	}
	if comp, ok := ioAlias[name]; ok {
		return TV{c.fe.comp(c.cur, comp, ioComps[comp]), nil}
	}
	// package-level constant / variable of the function's own package
	if c.f != nil && c.f.fn != nil && c.f.fn.Pkg != nil {
		if tv, ok := c.pkgObject(c.f.fn.Pkg.Pkg, name); ok {
			return tv
		}
	} else if c.fe.fn != nil && c.fe.fn.Pkg != nil {
		if tv, ok := c.pkgObject(c.fe.fn.Pkg.Pkg, name); ok {
			return tv
		}
	}
	if strings.HasPrefix(name, "TAG_") || strings.HasPrefix(name, "K_") {
		return TV{Term{name, SInt}, types.Typ[types.Int]}
	}
	// spec constant
	if sig, ok := c.fe.eng.specs.sigs[name]; ok && len(sig.Params) == 0 && sig.Result != "" && len(sig.Heap) == 0 {
		return TV{Term{name, sig.Result}, nil}
	}
	// borrowed clauses: names of the lending function (its parameters and locals at the call site)
	if c.f != nil && c.f.borrow != nil && c.f.parent != nil {
		for pf := c.f.parent; pf != nil; pf = pf.parent {
			c2 := *c
			c2.f = pf
			c2.names = nil
			if pf.fn != nil && pf.curBlock != nil {
				if tv, ok := c2.localByName(name); ok {
					return tv
				}
			}
			if tv, ok := c2.lookupName(name); ok {
				return tv
			}
		}
	}
	// rename recovery: the name may be a local or parameter that has been renamed in the code since the contract was
	// written.  Candidates are the named values in scope that the contract does not mention anywhere; a single candidate,
	// or one clearly closest in spelling, is taken (noted in the output).  A wrong guess cannot prove anything false: it
	// only changes which variable an invariant talks about, and the invariant still has to be proved.
	if tv, ok := c.renamed(name); ok {
		return tv
	}
	engErr("unknown identifier %q", name)
	return TV{}
}

// specArgGoType: spec functions whose single argument is a Go library object (used to tell renamed locals apart)
var specArgGoType = map[string]string{"sbText": "*strings.Builder"}

var unknownIdentRe = regexp.MustCompile(`unknown identifier "([^"]+)"`)

// retryWithCandidates evaluates the clause with `name` bound to each candidate value (named locals, allocs and parameters of
// the function that the contract mentions nowhere) and succeeds when exactly one candidate makes the clause well-sorted.
func (c *specCtx) retryWithCandidates(cl *Clause, name string) (Term, bool) {
	if c.f == nil || c.f.fn == nil {
		return Term{}, false
	}
	con := c.fe.eng.contracts[c.fe.eng.fnames[c.f.fn]]
	if con == nil {
		return Term{}, false
	}
	mentioned := con.mentionedNames()
	cands := map[string]bool{}
	for _, p := range c.f.fn.Params {
		if !mentioned[p.Name()] {
			cands[p.Name()] = true
		}
	}
	for _, b := range c.f.fn.Blocks {
		for _, in := range b.Instrs {
			switch x := in.(type) {
			case *ssa.Phi:
				if x.Comment != "" && x.Comment != "rangeindex" && !mentioned[x.Comment] && token.IsIdentifier(x.Comment) {
					cands[x.Comment] = true
				}
			case *ssa.DebugRef:
				if id, ok := x.Expr.(*ast.Ident); ok && !mentioned[id.Name] && id.Name != "_" {
					cands[id.Name] = true
				}
			case *ssa.Alloc:
				if x.Comment != "" && !mentioned[x.Comment] && token.IsIdentifier(x.Comment) {
					cands[x.Comment] = true
				}
			}
		}
	}
	// Go-type hint from the use site: the argument of a spec function over a Go library object must have that object's type
	wantType := ""
	if m := regexp.MustCompile(`(\w+)\(`+regexp.QuoteMeta(name)+`\)`).FindStringSubmatch(cl.Text); m != nil {
		wantType = specArgGoType[m[1]]
	}
	var okNames []string
	var okTerm Term
	var okTerms []Term
	for cand := range cands {
		c2 := *c
		c2.retrying = true
		c2.bound = map[string]TV{}
		for k, v := range c.bound {
			c2.bound[k] = v
		}
		tv, found := c2.lookupByAnyNameOrAlloc(cand)
		if !found {
			continue
		}
		if wantType != "" && (tv.Typ == nil || types.TypeString(tv.Typ, nil) != wantType) {
			continue
		}
		c2.bound[name] = tv
		func() {
			defer func() {
				if r := recover(); r != nil {
					if _, isEE := r.(*EngineError); !isEE {
						panic(r)
					}
				}
			}()
			t := c2.eval(cl.Expr)
			if t.T.Sort == SBool || t.T.Sort == SInt {
				okNames = append(okNames, cand)
				okTerm = t.T
				okTerms = append(okTerms, t.T)
			}
		}()
	}
	if len(okNames) > 1 && cl.anyCand {
		// a stated reason for refusing: "it holds of some local of the right kind" is still a reason, and never a false alarm
		{
			m := map[string]bool{}
			for _, n := range okNames {
				m[n] = true
			}
			okNames = sortStrings(m)
		}
		c.fe.assumes[fmt.Sprintf("contract name %q of %s (a `rejects` reason) could not be matched to one local; the reason is taken to hold of one of %v", name, c.fe.eng.fnames[c.f.fn], okNames)] = true
		for _, t := range okTerms {
			if t.Sort != SBool {
				return Term{}, false
			}
		}
		return tOr(okTerms...), true
	}
	if len(okNames) != 1 {
		return Term{}, false
	}
	c.fe.assumes[fmt.Sprintf("contract name %q of %s is taken to be the renamed local %q (the only candidate for which the clause is well-sorted)", name, c.fe.eng.fnames[c.f.fn], okNames[0])] = true
	return okTerm, true
}

func (c *specCtx) lookupByAnyNameOrAlloc(name string) (TV, bool) {
	if tv, ok := c.lookupByAnyName(name); ok {
		return tv, true
	}
	if c.f != nil && c.f.fn != nil && c.f.vals != nil {
		var found *ssa.Alloc
		n := 0
		for _, b := range c.f.fn.Blocks {
			for _, in := range b.Instrs {
				if al, ok := in.(*ssa.Alloc); ok && al.Comment == name {
					if _, has := c.f.vals[al]; has {
						found = al
						n++
					}
				}
			}
		}
		if n == 1 {
			return TV{c.f.vals[found], found.Type()}, true
		}
	}
	return TV{}, false
}

func lcsLen(a, b string) int {
	ra, rb := []rune(a), []rune(b)
	prev := make([]int, len(rb)+1)
	for i := 1; i <= len(ra); i++ {
		cur := make([]int, len(rb)+1)
		for j := 1; j <= len(rb); j++ {
			if ra[i-1] == rb[j-1] {
				cur[j] = prev[j-1] + 1
			} else if prev[j] >= cur[j-1] {
				cur[j] = prev[j]
			} else {
				cur[j] = cur[j-1]
			}
		}
		prev = cur
	}
	return prev[len(rb)]
}

func (c *specCtx) renamed(name string) (TV, bool) {
	if c.f == nil || c.f.fn == nil || c.fe == nil {
		return TV{}, false
	}
	con := c.fe.eng.contracts[c.fe.eng.fnames[c.f.fn]]
	if con == nil {
		return TV{}, false
	}
	if c.fe.renames == nil {
		c.fe.renames = map[string]string{}
	}
	if c.siteLocal {
		// a `rejects` reason is read at one call site: what a name means there says nothing about other places, so neither
		// the cache nor the heuristics apply; the any-candidate fallback of evalClause decides
		return TV{}, false
	}
	key := c.fe.eng.fnames[c.f.fn] + ":" + name
	if to, ok := c.fe.renames[key]; ok {
		if to == "" {
			return TV{}, false
		}
		if tv, ok := c.lookupByAnyName(to); ok {
			return tv, true
		}
		return TV{}, false
	}
	mentioned := con.mentionedNames()
	// first the loop-carried variables of the loop whose invariant is being read (they are what invariants talk about)
	{
		var loopC []string
		for k := range c.names {
			if k == "iter" || k == "pos" || k == "visited" || mentioned[k] {
				continue
			}
			loopC = append(loopC, k)
		}
		pick := ""
		if len(loopC) == 1 {
			pick = loopC[0]
		} else if len(loopC) > 1 {
			bs, ss := -1.0, -1.0
			for _, cand := range loopC {
				den := len([]rune(name))
				if n := len([]rune(cand)); n > den {
					den = n
				}
				sc := float64(lcsLen(name, cand)) / float64(den)
				if sc > bs {
					ss, bs, pick = bs, sc, cand
				} else if sc > ss {
					ss = sc
				}
			}
			if !(bs >= 0.4 && bs-ss >= 0.2) {
				pick = ""
			}
		}
		if pick != "" {
			c.fe.renames[key] = pick
			c.fe.assumes[fmt.Sprintf("contract name %q of %s is taken to be the renamed loop variable %q", name, c.fe.eng.fnames[c.f.fn], pick)] = true
			return c.names[pick], true
		}
	}
	// then the parameters: a single parameter the contract never mentions is the renamed one
	{
		var ps []string
		for _, p := range c.f.fn.Params {
			if !mentioned[p.Name()] && p.Name() != "" && p.Name() != "_" {
				if _, ok := c.f.params[p.Name()]; ok {
					ps = append(ps, p.Name())
				}
			}
		}
		if len(ps) == 1 {
			c.fe.renames[key] = ps[0]
			c.fe.assumes[fmt.Sprintf("contract name %q of %s is taken to be the renamed parameter %q", name, c.fe.eng.fnames[c.f.fn], ps[0])] = true
			return TV{c.f.params[ps[0]], c.f.ptypes[ps[0]]}, true
		}
	}
	cands := map[string]bool{}
	for _, p := range c.f.fn.Params {
		if !mentioned[p.Name()] {
			cands[p.Name()] = true
		}
	}
	for _, b := range c.f.fn.Blocks {
		for _, in := range b.Instrs {
			switch x := in.(type) {
			case *ssa.Phi:
				if x.Comment != "" && x.Comment != "rangeindex" && !mentioned[x.Comment] && token.IsIdentifier(x.Comment) {
					cands[x.Comment] = true
				}
			case *ssa.DebugRef:
				if id, ok := x.Expr.(*ast.Ident); ok && !mentioned[id.Name] && id.Name != "_" {
					cands[id.Name] = true
				}
			case *ssa.Alloc:
				if x.Comment != "" && !mentioned[x.Comment] && token.IsIdentifier(x.Comment) {
					cands[x.Comment] = true
				}
			}
		}
	}
	best, second := "", ""
	bs, ss := -1.0, -1.0
	for cand := range cands {
		l := lcsLen(name, cand)
		den := len([]rune(name))
		if n := len([]rune(cand)); n > den {
			den = n
		}
		sc := float64(l) / float64(den)
		if sc > bs || (sc == bs && cand < best) {
			second, ss = best, bs
			best, bs = cand, sc
		} else if sc > ss {
			second, ss = cand, sc
		}
	}
	_ = second
	ok := best != "" && (len(cands) == 1 || (bs >= 0.5 && bs-ss >= 0.2))
	if !ok {
		c.fe.renames[key] = ""
		return TV{}, false
	}
	tv, found := c.lookupByAnyName(best)
	if !found {
		c.fe.renames[key] = ""
		return TV{}, false
	}
	c.fe.renames[key] = best
	c.fe.assumes[fmt.Sprintf("contract name %q of %s is taken to be the renamed local %q", name, c.fe.eng.fnames[c.f.fn], best)] = true
	return tv, true
}

func (c *specCtx) lookupByAnyName(name string) (TV, bool) {
	if tv, ok := c.names[name]; ok {
		return tv, true
	}
	if c.f != nil && c.f.fn != nil && c.f.curBlock != nil {
		if tv, ok := c.localByName(name); ok {
			return tv, true
		}
	}
	return c.lookupName(name)
}

// mentionedNames: every identifier that occurs in the text of the contract's clauses.
func (c *Contract) mentionedNames() map[string]bool {
	if c.mentioned != nil {
		return c.mentioned
	}
	m := map[string]bool{}
	add := func(cl *Clause) {
		if cl == nil {
			return
		}
		for _, w := range identRe.FindAllString(cl.Text, -1) {
			m[w] = true
		}
	}
	for _, l := range [][]*Clause{c.Requires, c.Ensures, c.Decreases, c.Assumes, c.Defines, c.Rejects} {
		for _, cl := range l {
			add(cl)
		}
	}
	for _, lc := range c.Loops {
		for _, cl := range lc.Invariants {
			add(cl)
		}
		for _, cl := range lc.Decreases {
			add(cl)
		}
	}
	for k := range c.Lets {
		m[k] = true
	}
	c.mentioned = m
	return m
}

var identRe = regexp.MustCompile(`[\p{L}_][\p{L}\p{N}_]*`)

func (c *specCtx) pkgObject(pkg *types.Package, name string) (TV, bool) {
	obj := pkg.Scope().Lookup(name)
	if obj == nil {
		return TV{}, false
	}
	switch o := obj.(type) {
	case *types.Const:
		s := c.fe.eng.sorts.sortOf(o.Type())
		switch s {
		case SInt:
			i, _ := constant.Int64Val(constant.ToInt(o.Val()))
			return TV{tInt(i), o.Type()}, true
		case SBool:
			return TV{tBool(constant.BoolVal(o.Val())), o.Type()}, true
		case SStr:
			return TV{c.fe.eng.strConst(constant.StringVal(o.Val())), o.Type()}, true
		case SF64:
			f, _ := constant.Float64Val(o.Val())
			return TV{tF64(f), o.Type()}, true
		}
	case *types.Var:
		pk := shortPkg(pkg.Path())
		if pkg.Path() == repoModule {
			pk = "main"
		}
		comp := "G_" + sanitize(pk) + "_" + sanitize(name)
		s := c.fe.eng.sorts.sortOf(o.Type())
		return TV{c.fe.comp(c.cur, comp, s), o.Type()}, true
	}
	return TV{}, false
}

func (c *specCtx) pkgMember(pkgName, member string) (TV, bool) {
	var own *types.Package
	if c.f != nil && c.f.fn != nil && c.f.fn.Pkg != nil {
		own = c.f.fn.Pkg.Pkg
	} else if c.fe.fn != nil && c.fe.fn.Pkg != nil {
		own = c.fe.fn.Pkg.Pkg
	}
	for _, p := range c.fe.eng.pkgs {
		if p.Types.Name() == pkgName && strings.HasPrefix(p.PkgPath, repoModule) {
			return c.pkgObject(p.Types, member)
		}
	}
	if own != nil {
		for _, imp := range own.Imports() {
			if imp.Name() == pkgName {
				return c.pkgObject(imp, member)
			}
		}
	}
	return TV{}, false
}

func derefStruct(t types.Type) (*types.Named, *types.Struct, bool, bool) {
	if t == nil {
		return nil, nil, false, false
	}
	isPtr := false
	if p, ok := t.Underlying().(*types.Pointer); ok {
		t = p.Elem()
		isPtr = true
	}
	n, ok := t.(*types.Named)
	if !ok {
		return nil, nil, false, false
	}
	st, ok := n.Underlying().(*types.Struct)
	return n, st, isPtr, ok
}

func (c *specCtx) selectField(base TV, name string) TV {
	fe := c.fe
	so := fe.eng.sorts
	n, st, isPtr, ok := derefStruct(base.Typ)
	if !ok {
		engErr("selector .%s on non-struct (type %v, sort %s)", name, base.Typ, base.T.Sort)
	}
	for i := 0; i < st.NumFields(); i++ {
		if st.Field(i).Name() != name {
			continue
		}
		ft := st.Field(i).Type()
		if isPtr {
			h := fe.comp(c.cur, fieldComp(so, n, st, i), arrSort(SInt, so.sortOf(ft)))
			t := tSelect(h, base.T)
			if _, isSlice := ft.Underlying().(*types.Slice); isSlice && !strings.Contains(t.S, "q_") {
				fe.assume(tBool(true), fe.wf(t, ft, c.cur))
			}
			return TV{t, ft}
		}
		info := so.structInfo(so.sortOf(n))
		return TV{Term{"(" + info.Fields[i] + " " + base.T.S + ")", info.FSorts[i]}, ft}
	}
	engErr("no field %s in %s", name, n)
	return TV{}
}

func (c *specCtx) index(base, idx TV) TV {
	fe := c.fe
	so := fe.eng.sorts
	if base.Typ != nil {
		switch t := base.Typ.Underlying().(type) {
		case *types.Slice:
			es := so.sortOf(t.Elem())
			e := fe.comp(c.cur, "E_"+so.elemKey(t.Elem()), arrSort(SInt, arrSort(SInt, es)))
			i := c.coerce(idx, SInt)
			return TV{tSelect(tSelect(e, slRef(base.T)), absIndex(slOff(base.T), i)), t.Elem()}
		case *types.Map:
			key := fe.eng.mapKeyOf(t)
			ks, vs := so.sortOf(t.Key()), so.sortOf(t.Elem())
			mv := fe.comp(c.cur, "MV_"+key, arrSort(SInt, arrSort(ks, vs)))
			return TV{tSelect(tSelect(mv, base.T), c.coerce(idx, ks)), t.Elem()}
		}
	}
	if strings.HasPrefix(string(base.T.Sort), "(Array ") {
		return TV{tSelect(base.T, c.coerce(idx, arrayIdxSort(base.T.Sort))), nil}
	}
	engErr("index on sort %s", base.T.Sort)
	return TV{}
}

// coerce adapts integer literals to the wanted sort and NIL to the zero of the sort.
func (c *specCtx) coerce(v TV, want Sort) Term {
	if v.T.Sort == want {
		return v.T
	}
	if v.T.Sort == "NIL" {
		return c.fe.eng.sorts.zeroOfSort(want)
	}
	if v.T.Sort == SInt {
		if lit, ok := intLiteral(v.T.S); ok {
			switch want {
			case SBV64:
				return tBV64(uint64(lit))
			case SF64:
				return tF64(float64(lit))
			}
		}
	}
	engErr("sort mismatch: have %s (%s), want %s", v.T.Sort, v.T.S, want)
	return Term{}
}

func intLiteral(s string) (int64, bool) {
	if strings.HasPrefix(s, "(- ") && strings.HasSuffix(s, ")") {
		i, err := strconv.ParseInt(s[3:len(s)-1], 10, 64)
		return -i, err == nil
	}
	i, err := strconv.ParseInt(s, 10, 64)
	return i, err == nil
}

func (c *specCtx) unify(a, b TV) (Term, Term) {
	if a.T.Sort == b.T.Sort {
		return a.T, b.T
	}
	if a.T.Sort == "NIL" {
		return c.coerce(a, b.T.Sort), b.T
	}
	if b.T.Sort == "NIL" {
		return a.T, c.coerce(b, a.T.Sort)
	}
	if _, ok := intLiteral(a.T.S); ok && a.T.Sort == SInt {
		return c.coerce(a, b.T.Sort), b.T
	}
	if _, ok := intLiteral(b.T.S); ok && b.T.Sort == SInt {
		return a.T, c.coerce(b, a.T.Sort)
	}
	engErr("operands of different sorts: %s (%s) and %s (%s)", a.T.S, a.T.Sort, b.T.S, b.T.Sort)
	return Term{}, Term{}
}

func (c *specCtx) binary(x *ast.BinaryExpr) TV {
	boolT := types.Typ[types.Bool]
	switch x.Op {
	case token.LAND:
		return TV{tAnd(c.eval(x.X).T, c.eval(x.Y).T), boolT}
	case token.LOR:
		return TV{tOr(c.eval(x.X).T, c.eval(x.Y).T), boolT}
	}
	l, r := c.eval(x.X), c.eval(x.Y)
	a, b := c.unify(l, r)
	typ := l.Typ
	if typ == nil {
		typ = r.Typ
	}
	mk := func(op string, s Sort) TV {
		t := typ
		if s == SBool {
			t = boolT
		}
		return TV{Term{app(op, a, b), s}, t}
	}
	switch x.Op {
	case token.EQL:
		return mk("=", SBool)
	case token.NEQ:
		return TV{tNot(tEq(a, b)), boolT}
	}
	switch a.Sort {
	case SInt:
		switch x.Op {
		case token.ADD:
			return mk("+", SInt)
		case token.SUB:
			return mk("-", SInt)
		case token.MUL:
			return mk("*", SInt)
		case token.QUO:
			return mk("goquo", SInt)
		case token.REM:
			if t, ok := linearRem(a, b); ok {
				return TV{t, typ}
			}
			return mk("gorem", SInt)
		case token.LSS:
			return mk("<", SBool)
		case token.LEQ:
			return mk("<=", SBool)
		case token.GTR:
			return mk(">", SBool)
		case token.GEQ:
			return mk(">=", SBool)
		}
	case SBV64:
		ops := map[token.Token]string{token.ADD: "bvadd", token.SUB: "bvsub", token.MUL: "bvmul", token.AND: "bvand", token.OR: "bvor", token.XOR: "bvxor", token.SHL: "bvshl", token.SHR: "bvashr"}
		if op, ok := ops[x.Op]; ok {
			return mk(op, SBV64)
		}
		cmp := map[token.Token]string{token.LSS: "bvslt", token.LEQ: "bvsle", token.GTR: "bvsgt", token.GEQ: "bvsge"}
		if op, ok := cmp[x.Op]; ok {
			return mk(op, SBool)
		}
	case SF64:
		ops := map[token.Token]string{token.ADD: "fp.add RNE", token.SUB: "fp.sub RNE", token.MUL: "fp.mul RNE", token.QUO: "fp.div RNE"}
		if op, ok := ops[x.Op]; ok {
			return mk(op, SF64)
		}
		cmp := map[token.Token]string{token.LSS: "fp.lt", token.LEQ: "fp.leq", token.GTR: "fp.gt", token.GEQ: "fp.geq"}
		if op, ok := cmp[x.Op]; ok {
			return mk(op, SBool)
		}
	case SStr:
		if x.Op == token.ADD {
			return mk("str.cat", SStr)
		}
	}
	engErr("unsupported binary %s on sort %s", x.Op, a.Sort)
	return TV{}
}

func (c *specCtx) withState(old bool, f func() TV) TV {
	if !old {
		return f()
	}
	saved := c.cur
	if c.real == nil {
		c.real = c.cur
	}
	c.cur = c.old
	defer func() { c.cur = saved }()
	return f()
}

func (c *specCtx) call(x *ast.CallExpr) TV {
	fe := c.fe
	so := fe.eng.sorts
	boolT := types.Typ[types.Bool]
	name := ""
	switch f := x.Fun.(type) {
	case *ast.Ident:
		name = f.Name
	case *ast.SelectorExpr:
		name = fe.eng.exprText(f)
	default:
		engErr("unsupported call form")
	}
	arg := func(i int) TV { return c.eval(x.Args[i]) }
	switch name {
	case "old":
		return c.withState(true, func() TV { return c.eval(x.Args[0]) })
	case "now": // inside old(...): evaluate the argument in the current state again
		saved := c.cur
		if c.real != nil {
			c.cur = c.real
		}
		defer func() { c.cur = saved }()
		return c.eval(x.Args[0])
	case "implies":
		return TV{tImp(arg(0).T, arg(1).T), boolT}
	case "iff":
		return TV{tEq(arg(0).T, arg(1).T), boolT}
	case "ite":
		cnd := arg(0)
		a, b := c.unify(arg(1), arg(2))
		return TV{tIte(cnd.T, a, b), arg(1).Typ}
	case "len":
		v := arg(0)
		if v.T.Sort == SSlice {
			return TV{slLen(v.T), types.Typ[types.Int]}
		}
		if v.T.Sort == SStr {
			return TV{Term{"(cplen " + v.T.S + ")", SInt}, types.Typ[types.Int]}
		}
		if m, ok := v.Typ.Underlying().(*types.Map); ok {
			mc := fe.comp(c.cur, "MC_"+fe.eng.mapKeyOf(m), arrSort(SInt, SInt))
			return TV{tSelect(mc, v.T), types.Typ[types.Int]}
		}
		engErr("len of sort %s", v.T.Sort)
	case "cap":
		return TV{slCap(arg(0).T), types.Typ[types.Int]}
	case "has": // has(m, k): key k is in the domain of map m
		m, k := arg(0), arg(1)
		mt, ok := m.Typ.Underlying().(*types.Map)
		if !ok {
			engErr("has() on non-map")
		}
		key := fe.eng.mapKeyOf(mt)
		ks := so.sortOf(mt.Key())
		md := fe.comp(c.cur, "MD_"+key, arrSort(SInt, arrSort(ks, SBool)))
		return TV{tSelect(tSelect(md, m.T), c.coerce(k, ks)), boolT}
	case "forall", "exists":
		// forall(k, lo, hi, body)  over Int;  forall(k, Sort, body) over a named sort
		id, ok := x.Args[0].(*ast.Ident)
		if !ok {
			engErr("quantifier variable must be an identifier")
		}
		if len(x.Args) == 4 {
			lo, hi := arg(1), arg(2)
			q := "q_" + id.Name
			qt := Term{q, SInt}
			// When the body indexes exactly one slice with the bound variable, quantify over the absolute position in the
			// backing array instead: the element access becomes (select row q), a trigger every ground access matches.
			kv := TV{qt, types.Typ[types.Int]}
			if base := c.singleIndexedBase(x.Args[3], id.Name); base != nil {
				if bv := c.eval(base); bv.T.Sort == SSlice {
					kv = TV{Term{"(- " + q + " " + slOff(bv.T).S + ")", SInt}, types.Typ[types.Int]}
				}
			}
			c.bound[id.Name] = kv
			body := c.eval(x.Args[3])
			delete(c.bound, id.Name)
			rng := tAnd(tLe(c.coerce(lo, SInt), kv.T), tLt(kv.T, c.coerce(hi, SInt)))
			if name == "forall" {
				return TV{Term{fmt.Sprintf("(forall ((%s Int)) %s)", q, tImp(rng, body.T).S), SBool}, boolT}
			}
			return TV{Term{fmt.Sprintf("(exists ((%s Int)) %s)", q, tAnd(rng, body.T).S), SBool}, boolT}
		}
		if len(x.Args) == 3 {
			sid, ok := x.Args[1].(*ast.Ident)
			if !ok {
				engErr("quantifier sort must be an identifier")
			}
			q := "q_" + id.Name
			srt := Sort(sid.Name)
			c.bound[id.Name] = TV{Term{q, srt}, nil}
			body := c.eval(x.Args[2])
			delete(c.bound, id.Name)
			return TV{Term{fmt.Sprintf("(%s ((%s %s)) %s)", name, q, srt, body.T.S), SBool}, boolT}
		}
		engErr("bad quantifier arity")
	case "elem": // elem(s, k): k-th element of a []interface{} value in the current heap
		sl, k := arg(0), arg(1)
		if sl.T.Sort != SSlice {
			engErr("elem() on sort %s", sl.T.Sort)
		}
		e := fe.comp(c.cur, "E_Val", arrSort(SInt, arrSort(SInt, SVal)))
		return TV{tSelect(tSelect(e, slRef(sl.T)), absIndex(slOff(sl.T), c.coerce(k, SInt))), nil}
	case "flat": // flat(args): the single array argument's elements, or the arguments themselves
		a := arg(0)
		e := fe.comp(c.cur, "E_Val", arrSort(SInt, arrSort(SInt, SVal)))
		first := tSelect(tSelect(e, slRef(a.T)), slOff(a.T))
		cond := tAnd(tEq(slLen(a.T), tInt(1)), Term{"((_ is VArr) " + first.S + ")", SBool})
		return TV{tIte(cond, Term{"(varr " + first.S + ")", SSlice}, a.T), a.Typ}
	case "framed": // framed(C1, C2, ...): objects of these components that existed at entry are unchanged
		var eqs []Term
		for _, a := range x.Args {
			id, ok := a.(*ast.Ident)
			if !ok {
				engErr("framed() takes component names")
			}
			comp := id.Name
			srt, ok := fe.eng.compSorts[comp]
			if !ok {
				engErr("framed(): unknown component %s", comp)
			}
			aset := ""
			switch {
			case strings.HasPrefix(comp, "E_"):
				aset = "A_" + comp
			case strings.HasPrefix(comp, "MD_"), strings.HasPrefix(comp, "MV_"), strings.HasPrefix(comp, "MC_"):
				aset = "A_M_" + comp[3:]
			default:
				engErr("framed(): unsupported component %s", comp)
			}
			al := fe.comp(c.old, aset, arrSort(SInt, SBool))
			cur := fe.comp(c.cur, comp, srt)
			old := fe.comp(c.old, comp, srt)
			q := "q_fr_" + sanitize(comp)
			if atomRe.MatchString(cur.S) {
				eqs = append(eqs, Term{fmt.Sprintf("(forall ((%s Int)) (! (=> (select %s %s) (= (select %s %s) (select %s %s))) :pattern ((select %s %s))))", q, al.S, q, cur.S, q, old.S, q, cur.S, q), SBool})
			} else {
				eqs = append(eqs, Term{fmt.Sprintf("(forall ((%s Int)) (=> (select %s %s) (= (select %s %s) (select %s %s))))", q, al.S, q, cur.S, q, old.S, q), SBool})
			}
		}
		return TV{tAnd(eqs...), boolT}
	case "unchanged", "unchangedHeap": // the Borno-visible state (resp. its heap part) equals the entry state
		n := len(snapComps)
		if name == "unchangedHeap" {
			n = 4
		}
		var eqs []Term
		for _, sc := range snapComps[:n] {
			s := fe.eng.compSorts[sc.comp]
			eqs = append(eqs, tEq(fe.comp(c.cur, sc.comp, s), fe.comp(c.old, sc.comp, s)))
		}
		return TV{tAnd(eqs...), boolT}
	case "entryIsPre": // the entry state equals the state before event k
		k := c.coerce(arg(0), SInt)
		var eqs []Term
		for _, sc := range snapComps {
			s := fe.eng.compSorts[sc.comp]
			log := fe.comp(c.cur, "LOG_pre"+sc.suffix, fe.eng.compSorts["LOG_pre"+sc.suffix])
			eqs = append(eqs, tEq(fe.comp(c.old, sc.comp, s), tSelect(log, k)))
		}
		return TV{tAnd(eqs...), boolT}
	case "store":
		a, i, v := arg(0), arg(1), arg(2)
		return TV{tStore(a.T, c.coerce(i, arrayIdxSort(a.T.Sort)), c.coerce(v, arrayElemSort(a.T.Sort))), nil}
	case "sel":
		a, i := arg(0), arg(1)
		return TV{tSelect(a.T, c.coerce(i, arrayIdxSort(a.T.Sort))), nil}
	case "ref": // ref(slice): its backing-array reference
		return TV{slRef(arg(0).T), types.Typ[types.Int]}
	case "off": // off(slice): offset of its first element in the backing array
		return TV{slOff(arg(0).T), types.Typ[types.Int]}
	case "fresh": // fresh(p): p was not allocated in the old state
		v := arg(0)
		pt, ok := v.Typ.Underlying().(*types.Pointer)
		if !ok {
			engErr("fresh() on non-pointer")
		}
		aset := fe.allocSetOfPointee(pt.Elem())
		a := fe.comp(c.old, aset, arrSort(SInt, SBool))
		return TV{tAnd(tNot(tSelect(a, v.T)), tLt(tInt(0), v.T)), boolT}
	case "float64":
		v := arg(0)
		switch v.T.Sort {
		case SInt:
			if lit, ok := intLiteral(v.T.S); ok {
				return TV{tF64(float64(lit)), types.Typ[types.Float64]}
			}
			return TV{Term{"((_ to_fp 11 53) RNE (to_real " + v.T.S + "))", SF64}, types.Typ[types.Float64]}
		case SBV64:
			return TV{Term{"((_ to_fp 11 53) RNE " + v.T.S + ")", SF64}, types.Typ[types.Float64]}
		case SF64:
			return v
		}
	case "int64":
		v := arg(0)
		if lit, ok := intLiteral(v.T.S); ok && v.T.Sort == SInt {
			return TV{tBV64(uint64(lit)), types.Typ[types.Int64]}
		}
		if v.T.Sort == SF64 {
			return TV{Term{"(f2i64 " + v.T.S + ")", SBV64}, types.Typ[types.Int64]}
		}
	case "int":
		v := arg(0)
		if v.T.Sort == SBV64 {
			return TV{fe.s2i(v.T), types.Typ[types.Int]}
		}
		return v
	}
	if ctor, ok := valCtors[name]; ok {
		var args []Term
		for i := range x.Args {
			args = append(args, c.coerce(arg(i), ctor.params[i]))
		}
		if len(args) == 0 {
			return TV{Term{name, ctor.result}, nil}
		}
		return TV{Term{app(name, args...), ctor.result}, nil}
	}
	// spec function from the prelude
	sig, ok := fe.eng.specs.sigs[name]
	if !ok || sig.Result == "" {
		engErr("unknown spec function %q", name)
	}
	var args []Term
	for _, h := range sig.Heap {
		s, ok := fe.eng.compSorts[h]
		if !ok {
			s = sig.Params[len(args)]
			fe.eng.noteComp(h, s)
		}
		args = append(args, fe.comp(c.cur, h, s))
	}
	if len(x.Args)+len(sig.Heap) != len(sig.Params) {
		engErr("spec function %s expects %d arguments, got %d", name, len(sig.Params)-len(sig.Heap), len(x.Args))
	}
	for i := range x.Args {
		args = append(args, c.coerce(arg(i), sig.Params[len(sig.Heap)+i]))
	}
	if len(args) == 0 {
		return TV{Term{name, sig.Result}, nil}
	}
	t := Term{app(name, args...), sig.Result}
	if sig.Unfold && !strings.Contains(t.S, "q_") {
		fe.assume(tBool(true), Term{"(= " + t.S + " " + app(name+"$def", args...) + ")", SBool})
	}
	return TV{t, nil}
}

func (e *Engine) exprText(x ast.Expr) string {
	switch v := x.(type) {
	case *ast.Ident:
		return v.Name
	case *ast.SelectorExpr:
		return e.exprText(v.X) + "." + v.Sel.Name
	}
	return "?"
}

var _ = ssa.Function{}

var ioAlias = map[string]string{"delivered": "G_io_Delivered", "inLines": "G_io_InLines", "lastUnterminated": "G_io_LastUnterminated",
	"stdoutN": "G_io_OutN", "stdout": "G_io_Out", "stderrN": "G_io_ErrN", "stderr": "G_io_Err",
	"exited": "G_io_Exited", "exitCode": "G_io_ExitCode", "stdinPos": "G_io_InPos"}

type ctorSig struct {
	params []Sort
	result Sort
}

var valCtors = map[string]ctorSig{
	"VNil": {nil, SVal}, "VBool": {[]Sort{SBool}, SVal}, "VF64": {[]Sort{SF64}, SVal}, "VI64": {[]Sort{SBV64}, SVal}, "VInt": {[]Sort{SInt}, SVal},
	"VStr": {[]Sort{SStr}, SVal}, "VRunes": {[]Sort{SSlice}, SVal}, "VArr": {[]Sort{SSlice}, SVal}, "VObj": {[]Sort{SInt}, SVal},
	"VPtr": {[]Sort{SInt, SInt}, SVal}, "VStruct": {[]Sort{SInt}, SVal}, "VOther": {[]Sort{SInt, SInt}, SVal},
	"vbool": {[]Sort{SVal}, SBool}, "vf64": {[]Sort{SVal}, SF64}, "vi64": {[]Sort{SVal}, SBV64}, "vint": {[]Sort{SVal}, SInt}, "vstr": {[]Sort{SVal}, SStr},
	"vrunes": {[]Sort{SVal}, SSlice}, "varr": {[]Sort{SVal}, SSlice}, "vobj": {[]Sort{SVal}, SInt}, "vpref": {[]Sort{SVal}, SInt}, "vptag": {[]Sort{SVal}, SInt},
	"mkSlice": {[]Sort{SInt, SInt, SInt, SInt}, SSlice},
}

func (c *specCtx) localByName(name string) (TV, bool) {
	f := c.f
	var best ssa.Value
	var bestBlock *ssa.BasicBlock
	for _, b := range f.fn.Blocks {
		if !(b == f.curBlock || b.Dominates(f.curBlock)) {
			continue
		}
		for _, in := range b.Instrs {
			var v ssa.Value
			switch x := in.(type) {
			case *ssa.Phi:
				if x.Comment == name {
					v = x
				}
			case *ssa.DebugRef:
				if id, ok := x.Expr.(*ast.Ident); ok && id.Name == name && !x.IsAddr {
					if _, isParam := x.X.(*ssa.Parameter); !isParam {
						v = x.X
					}
				}
			}
			if v == nil {
				continue
			}
			if _, has := f.vals[v]; !has {
				if _, isConst := v.(*ssa.Const); !isConst {
					continue
				}
			}
			if bestBlock == nil || bestBlock.Dominates(b) {
				best, bestBlock = v, b
			}
		}
	}
	if best == nil {
		return TV{}, false
	}
	return TV{c.fe.val(best), best.Type()}, true
}

// absIndex computes off+idx, cancelling the (- q off) form produced for bound variables.
func absIndex(off, idx Term) Term {
	pre := "(- "
	suf := " " + off.S + ")"
	if strings.HasPrefix(idx.S, pre) && strings.HasSuffix(idx.S, suf) {
		q := idx.S[len(pre) : len(idx.S)-len(suf)]
		if !strings.ContainsAny(q, " ()") {
			return Term{q, SInt}
		}
	}
	// (+ (- q off) c)  or  (- (- q off) c)
	for _, op := range []string{"+", "-"} {
		p := "(" + op + " (- "
		if strings.HasPrefix(idx.S, p) {
			rest := idx.S[len(p):]
			if i := strings.Index(rest, suf+" "); i > 0 {
				q := rest[:i]
				cst := strings.TrimSuffix(rest[i+len(suf)+1:], ")")
				if !strings.ContainsAny(q, " ()") && !strings.ContainsAny(cst, " ()") {
					return Term{"(" + op + " " + q + " " + cst + ")", SInt}
				}
			}
		}
	}
	return tAdd(off, idx)
}

// singleIndexedBase: if every slice access in body that mentions the bound variable `name` in its index has the same base
// expression (by source text), returns that base.
func (c *specCtx) singleIndexedBase(body ast.Expr, name string) ast.Expr {
	var bases []ast.Expr
	mentions := func(e ast.Expr) bool {
		found := false
		ast.Inspect(e, func(n ast.Node) bool {
			if id, ok := n.(*ast.Ident); ok && id.Name == name {
				found = true
			}
			return true
		})
		return found
	}
	// direct: the variable occurs in the index through arithmetic only (not nested in another index or call)
	var direct func(e ast.Expr) bool
	direct = func(e ast.Expr) bool {
		switch y := e.(type) {
		case *ast.Ident:
			return y.Name == name
		case *ast.BinaryExpr:
			return direct(y.X) || direct(y.Y)
		case *ast.ParenExpr:
			return direct(y.X)
		case *ast.UnaryExpr:
			return direct(y.X)
		}
		return false
	}
	ast.Inspect(body, func(n ast.Node) bool {
		switch x := n.(type) {
		case *ast.IndexExpr:
			if direct(x.Index) {
				bases = append(bases, x.X)
			}
		case *ast.CallExpr:
			if id, ok := x.Fun.(*ast.Ident); ok && id.Name == "elem" && len(x.Args) == 2 && direct(x.Args[1]) {
				bases = append(bases, x.Args[0])
			}
			if id, ok := x.Fun.(*ast.Ident); ok && (id.Name == "forall" || id.Name == "exists") && len(x.Args) > 0 {
				if qid, ok := x.Args[0].(*ast.Ident); ok && qid.Name == name {
					return false // shadowed
				}
			}
		}
		return true
	})
	if len(bases) == 0 {
		return nil
	}
	// The bound variable may also occur in plain comparisons / arithmetic, but not as an index into anything else or as an
	// argument of a spec function (e.g. an index into the event log): there the relative form gives the better triggers.
	baseTxt := c.fe.eng.exprString(bases[0])
	blocked := false
	var walk func(n ast.Node, inArg bool)
	walk = func(n ast.Node, inArg bool) {
		if n == nil || blocked {
			return
		}
		switch x := n.(type) {
		case *ast.Ident:
			if x.Name == name && inArg {
				blocked = true
			}
		case *ast.IndexExpr:
			walk(x.X, inArg)
			if c.fe.eng.exprString(x.X) == baseTxt {
				walk(x.Index, false)
			} else {
				walk(x.Index, true)
			}
		case *ast.CallExpr:
			fn := ""
			if id, ok := x.Fun.(*ast.Ident); ok {
				fn = id.Name
			}
			switch fn {
			case "forall", "exists":
				if len(x.Args) == 4 {
					walk(x.Args[1], inArg)
					walk(x.Args[2], inArg)
					walk(x.Args[3], inArg)
				} else {
					for _, a := range x.Args[1:] {
						walk(a, inArg)
					}
				}
			case "implies", "iff", "ite", "old", "now":
				for _, a := range x.Args {
					walk(a, inArg)
				}
			case "elem":
				if len(x.Args) == 2 && c.fe.eng.exprString(x.Args[0]) == baseTxt {
					walk(x.Args[0], inArg)
					walk(x.Args[1], false)
				} else {
					for _, a := range x.Args {
						walk(a, true)
					}
				}
			default:
				for _, a := range x.Args {
					walk(a, true)
				}
			}
		case *ast.BinaryExpr:
			walk(x.X, inArg)
			walk(x.Y, inArg)
		case *ast.UnaryExpr:
			walk(x.X, inArg)
		case *ast.ParenExpr:
			walk(x.X, inArg)
		case *ast.SelectorExpr:
			walk(x.X, inArg)
		case *ast.TypeAssertExpr:
			walk(x.X, inArg)
		case *ast.StarExpr:
			walk(x.X, inArg)
		}
	}
	walk(body, false)
	if blocked {
		return nil
	}
	txt := c.fe.eng.exprString(bases[0])
	for _, b := range bases[1:] {
		if c.fe.eng.exprString(b) != txt {
			return nil
		}
	}
	if mentions(bases[0]) {
		return nil
	}
	return bases[0]
}

func (e *Engine) exprString(x ast.Expr) string {
	var sb strings.Builder
	printer.Fprint(&sb, token.NewFileSet(), x)
	return sb.String()
}

// resolveType resolves a Go type expression of the forms *pkg.Name, pkg.Name, Name.
func (c *specCtx) resolveType(e ast.Expr) types.Type {
	switch x := e.(type) {
	case *ast.StarExpr:
		return types.NewPointer(c.resolveType(x.X))
	case *ast.SelectorExpr:
		if id, ok := x.X.(*ast.Ident); ok {
			for _, p := range c.fe.eng.pkgs {
				if p.Types.Name() == id.Name && strings.HasPrefix(p.PkgPath, repoModule) {
					if obj := p.Types.Scope().Lookup(x.Sel.Name); obj != nil {
						return obj.Type()
					}
				}
			}
		}
	case *ast.Ident:
		var own *types.Package
		if c.f != nil && c.f.fn != nil && c.f.fn.Pkg != nil {
			own = c.f.fn.Pkg.Pkg
		} else if c.fe.fn != nil && c.fe.fn.Pkg != nil {
			own = c.fe.fn.Pkg.Pkg
		}
		if own != nil {
			if obj := own.Scope().Lookup(x.Name); obj != nil {
				return obj.Type()
			}
		}
	}
	engErr("cannot resolve type %s", c.fe.eng.exprString(e))
	return nil
}

// linearRem: a % b with a numeral divisor (or an ite of numerals) written with SMT mod, which is linear.
func linearRem(a, b Term) (Term, bool) {
	if n, ok := intLiteral(b.S); ok && n > 0 {
		return Term{fmt.Sprintf("(ite (>= %s 0) (mod %s %d) (- (mod (- %s) %d)))", a.S, a.S, n, a.S, n), SInt}, true
	}
	if strings.HasPrefix(b.S, "(ite ") {
		parts := splitTop(b.S[1 : len(b.S)-1])
		if len(parts) == 4 {
			t1, ok1 := linearRem(a, Term{parts[2], SInt})
			t2, ok2 := linearRem(a, Term{parts[3], SInt})
			if ok1 && ok2 {
				return Term{"(ite " + parts[1] + " " + t1.S + " " + t2.S + ")", SInt}, true
			}
		}
	}
	return Term{}, false
}

// SpecDef: a spec function defined in a contract file (`//@ spec f(x Str) Int = ...`).
type SpecDef struct {
	Name   string
	Params []string
	Sorts  []Sort
	Result Sort
	Body   ast.Expr
	Text   string
	Pkg    string
	Where  string
	SMT    string
}

// compileSpecDefs turns the spec definitions into define-funs (appended to the prelude) and registers their signatures.
func (e *Engine) compileSpecDefs() error {
	for _, sd := range e.specDefs {
		fe := &FuncEnc{eng: e, name: "spec." + sd.Name, declared: map[string]bool{}, inlined: map[string]bool{}, trusted: map[string]bool{},
			assumes: map[string]bool{}, bvOffsets: map[string]bvOffset{}, consts: map[string]bool{}}
		f := &Frame{params: map[string]Term{}, ptypes: map[string]types.Type{}, labelCnt: map[string]int{}}
		fe.cur = f
		names := map[string]TV{}
		var ps []string
		for i, p := range sd.Params {
			names[p] = TV{Term{"sp_" + p, sd.Sorts[i]}, nil}
			ps = append(ps, "(sp_"+p+" "+string(sd.Sorts[i])+")")
		}
		var err error
		var body Term
		func() {
			defer func() {
				if r := recover(); r != nil {
					if ee, ok := r.(*EngineError); ok {
						err = fmt.Errorf("%s: %s", sd.Where, ee.msg)
						return
					}
					panic(r)
				}
			}()
			ctx := &specCtx{fe: fe, f: f, cur: &State{heap: map[string]Term{}}, old: &State{heap: map[string]Term{}}, names: names, bound: map[string]TV{}, where: sd.Where}
			body = ctx.eval(sd.Body).T
		}()
		if err != nil {
			return err
		}
		if len(fe.items) > 0 {
			return fmt.Errorf("%s: spec body must be closed (no heap access)", sd.Where)
		}
		if body.Sort != sd.Result {
			if lit, ok := intLiteral(body.S); ok && sd.Result == SBV64 {
				body = tBV64(uint64(lit))
			} else {
				return fmt.Errorf("%s: spec body has sort %s, declared %s", sd.Where, body.Sort, sd.Result)
			}
		}
		sd.SMT = fmt.Sprintf("(define-fun %s (%s) %s %s)", sd.Name, strings.Join(ps, " "), sd.Result, body.S)
		e.specs.sigs[sd.Name] = &SpecSig{Name: sd.Name, Params: sd.Sorts, Result: sd.Result}
	}
	return nil
}
