package main

// Forward symbolic execution of one go/ssa function into SMT-LIB items and obligations.

import (
	"fmt"
	"go/ast"
	"go/constant"
	"go/token"
	"go/types"
	"math/big"
	"regexp"
	"sort"
	"strings"

	"golang.org/x/tools/go/ast/astutil"
	"golang.org/x/tools/go/ssa"
)

type EngineError struct{ msg string }

func (e *EngineError) Error() string { return e.msg }

func engErr(format string, args ...interface{}) {
	panic(&EngineError{fmt.Sprintf(format, args...)})
}

type Item struct {
	Text  string
	Def   string   // symbol declared/defined ("" for assert)
	Syms  []string // symbols mentioned
	Guard string   // for `(assert (=> guard fact))`: the guard text (its symbols alone do not pull the item into a cone)
	Trig  []string // symbols of the fact part
}

type Obl struct {
	Name      string
	Func      string
	Kind      string
	Label     string
	Props     []string
	Pos       int // items[0:Pos] are in scope
	Goal      Term
	Clause    string
	SrcPos    string
	ExpectSat bool
	fe        *FuncEnc
	// results
	Status string // unsat | sat | unknown | timeout | error
	Solver string
	Time   float64
	Output string
	Cached bool
	batchMiss bool // undecided by the z3-new batch pass within its per-query budget
	Cross  string // thorough tier: verdict of a solver of the other family on the same query ("" = not run)
	Inputs []ModelInput // names of symbols worth printing from a model
}

type ModelInput struct {
	Name string // source-level name
	Sym  string // SMT symbol
	Sort Sort
	Type string
}

type State struct {
	heap map[string]Term
}

func (s *State) clone() *State {
	n := &State{heap: make(map[string]Term, len(s.heap))}
	for k, v := range s.heap {
		n.heap[k] = v
	}
	return n
}

const (
	aField = iota
	aElem
	aCell
	aGlobal
)

type pathSel struct {
	info *StructInfo
	i    int
}

type Addr struct {
	Comp string
	Kind int
	Ref  Term
	Idx  Term
	Path []pathSel
	Typ  types.Type
}

// Frame holds the per-invocation maps (the function under proof, or an inlined callee).
type Frame struct {
	fn         *ssa.Function
	vals       map[ssa.Value]Term
	tuples     map[ssa.Value][]Term
	addrs      map[ssa.Value]*Addr
	out        map[*ssa.BasicBlock]*State
	reach      map[*ssa.BasicBlock]Term
	edgeCond   map[[2]int]Term
	entry      *State
	parent     *Frame
	prefix     string // label prefix for inlined obligations
	params     map[string]Term
	ptypes     map[string]types.Type
	rets     []retInfo
	exits    []retInfo
	headerSt   map[*ssa.BasicBlock]*State // state right after havoc+assume at loop header
	headerV0   map[*ssa.BasicBlock][]Term // variants at header
	labelCnt   map[string]int
	mon        *MonitorCtx
	iterOf     map[*ssa.BasicBlock]Term // rangeindex loops: iterations completed at header
	mapRange   map[ssa.Value]*mapRangeInfo
	curSt      *State
	curBlock   *ssa.BasicBlock
	curInstr   ssa.Instruction
	headerFlag map[*ssa.BasicBlock]Term
	borrow     *Frame                   // an inlined helper without contract whose loops use loop clauses of this (top) frame's contract
	ghostIter  map[*ssa.BasicBlock]Term // ghost count of completed iterations at the loop header (any loop shape)
}

type retInfo struct {
	block *ssa.BasicBlock
	reach Term
	st    *State
	res   []Term
	pos   token.Pos
}

type mapRangeInfo struct {
	m       Term
	mapType *types.Map
	isStr   bool
	str     Term
	visComp string // ghost component holding the visited set / position
}

type FuncEnc struct {
	rejectN    int // reject sites met so far (labels)
	eng       *Engine
	fn        *ssa.Function
	name      string
	con       *Contract
	items     []Item
	nsym      int
	obls      []*Obl
	declared  map[string]bool
	cur       *Frame
	depth     int
	inlined   map[string]bool
	trusted   map[string]bool // stubs used
	assumes   map[string]bool // notes for evidence
	inputs    []ModelInput
	props     []string
	bvOffsets map[string]bvOffset
	consts    map[string]bool
	entryMeasure []Term
	loopMaps     map[*ssa.Function]map[int]int // code loop ordinal -> contract loop ordinal (when the counts differ)
	orphanLoops  []int                         // contract loop ordinals of the top function no loop of its code matched
	borrowed     map[string]int                // "fn:ord" of an inlined helper loop -> orphan contract loop ordinal
	renames      map[string]string // rename recovery: contract name -> local it was resolved to ("" = none)
	deps         map[string]bool // functions whose contract (or havoc summary, or inlined body) this function's proof uses
	checkOnly    bool // emit obligations without assuming them afterwards
	defAt     map[string]int
	usedIn    map[string][]int
	trigIn    map[string][]int
	hub       map[string]bool
	indexedN  int
}

type bvOffset struct {
	base  Term
	delta int64
}

var symRe = regexp.MustCompile(`[A-Za-z_][A-Za-z0-9_.$@!]*`)

func (fe *FuncEnc) addItem(text, def string) {
	fe.items = append(fe.items, Item{Text: text, Def: def})
}

func (fe *FuncEnc) freshName(prefix string) string {
	fe.nsym++
	return fmt.Sprintf("%s_%d", sanitize(prefix), fe.nsym)
}

func (fe *FuncEnc) fresh(prefix string, s Sort) Term {
	n := fe.freshName(prefix)
	fe.addItem(fmt.Sprintf("(declare-const %s %s)", n, s), n)
	fe.consts[n] = true
	return Term{n, s}
}

// atom returns a declared constant equal to t (define-fun names are macros and must not occur in patterns).
func (fe *FuncEnc) atom(t Term) Term {
	if fe.consts[t.S] {
		return t
	}
	a := fe.fresh("alias", t.Sort)
	fe.addItem("(assert (= "+a.S+" "+t.S+"))", "")
	return a
}

var atomRe = regexp.MustCompile(`^[A-Za-z0-9_.$@!#-]+$`)

// define names a term so that it is printed once.
func (fe *FuncEnc) define(prefix string, t Term) Term {
	if atomRe.MatchString(t.S) || len(t.S) < 24 {
		return t
	}
	n := fe.freshName(prefix)
	fe.addItem(fmt.Sprintf("(define-fun %s () %s %s)", n, t.Sort, t.S), n)
	return Term{n, t.Sort}
}

func (fe *FuncEnc) assume(path, fact Term) {
	f := tImp(path, fact)
	if f.S == "true" {
		return
	}
	fe.items = append(fe.items, Item{Text: "(assert " + f.S + ")", Guard: path.S})
}

// comp returns the current term of a heap component in st, declaring its initial symbol on demand.
func (fe *FuncEnc) comp(st *State, name string, s Sort) Term {
	if t, ok := st.heap[name]; ok {
		return t
	}
	init := name + "_0"
	if !fe.declared[init] {
		fe.declared[init] = true
		fe.consts[init] = true
		fe.addItem(fmt.Sprintf("(declare-const %s %s)", init, s), init)
		fe.eng.noteComp(name, s)
		if strings.HasPrefix(name, "MD_") {
			// the nil map has no keys
			fe.addItem(fmt.Sprintf("(assert (= (select %s 0) ((as const %s) false)))", init, arrayElemSort(s)), "")
		}
		if strings.HasPrefix(name, "MC_") {
			fe.addItem(fmt.Sprintf("(assert (forall ((r Int)) (! (>= (select %s r) 0) :pattern ((select %s r)))))", init, init), "")
			fe.addItem(fmt.Sprintf("(assert (= (select %s 0) 0))", init), "")
		}
		if strings.HasPrefix(name, "A_") {
			fe.addItem(fmt.Sprintf("(assert (not (select %s 0)))", init), "")
		}
		if name == "G_io_EOF" {
			// io.EOF: one fixed non-nil error value, never reassigned
			fe.addItem(fmt.Sprintf("(assert (= %s (VOther %d 0)))", init, errTag), "")
		}
		if name == "G_io_Exited" {
			// no code runs after the process has exited
			fe.addItem(fmt.Sprintf("(assert (not %s))", init), "")
		}
	}
	t := Term{init, s}
	return t
}

func (e *Engine) noteComp(name string, s Sort) {
	if old, ok := e.compSorts[name]; ok && old != s {
		engErr("component %s has two sorts: %s and %s", name, old, s)
	}
	e.compSorts[name] = s
}

func (fe *FuncEnc) setComp(st *State, name string, t Term) {
	st.heap[name] = fe.define(name, t)
}

// ---------------------------------------------------------------------
// obligations

func (fe *FuncEnc) emit(kind, label string, path, goal Term, clause string, pos token.Pos) {
	if kind == "typeinv" || kind == "cell" || kind == "globalinv" || kind == "post" || kind == "inv.step" || kind == "inv.entry" || kind == "pre" || kind == "lemma" {
		if parts := splitGoal(goal.S, 16); len(parts) > 1 {
			for i, p := range parts {
				fe.emit1(kind, fmt.Sprintf("%s.%d", label, i+1), path, Term{p, SBool}, clause, pos)
			}
			return
		}
	}
	fe.emit1(kind, label, path, goal, clause, pos)
}

// splitGoal distributes a goal over its top-level conjunctions (also under implications), so that every conjunct becomes
// its own small obligation.
func splitGoal(s string, max int) []string {
	s = strings.TrimSpace(s)
	if !strings.HasPrefix(s, "(") {
		return []string{s}
	}
	parts := splitTop(s[1 : len(s)-1])
	if len(parts) < 2 {
		return []string{s}
	}
	switch parts[0] {
	case "and":
		var out []string
		for _, p := range parts[1:] {
			out = append(out, splitGoal(p, max)...)
		}
		if len(out) > max {
			return []string{s}
		}
		return out
	case "=>":
		if len(parts) != 3 {
			return []string{s}
		}
		cs := splitGoal(parts[2], max)
		if len(cs) == 1 {
			return []string{s}
		}
		var out []string
		for _, c := range cs {
			out = append(out, "(=> "+parts[1]+" "+c+")")
		}
		return out
	}
	return []string{s}
}

func (fe *FuncEnc) emit1(kind, label string, path, goal Term, clause string, pos token.Pos) {
	full := fe.cur.prefix + label
	// de-duplicate labels within the function
	key := kind + ":" + full
	fe.cur.labelCnt[key]++
	if n := fe.cur.labelCnt[key]; n > 1 {
		full = fmt.Sprintf("%s#%d", full, n)
	}
	if fe.cur != nil && fe.cur.curSt != nil && kind != "post" {
		if ex, ok := fe.cur.curSt.heap["G_io_Exited"]; ok && ex.S != "false" {
			path = tAnd(path, tNot(ex))
		}
	}
	g := tImp(path, goal)
	if g.S == "true" {
		// trivially true: still count as an obligation discharged syntactically? keep it out of the solver
		fe.obls = append(fe.obls, &Obl{Name: fe.name + "/" + kind + ":" + full, Func: fe.name, Kind: kind, Label: full, Pos: len(fe.items), Goal: g,
			Clause: clause, SrcPos: fe.eng.relPos(pos), fe: fe, Status: "unsat", Solver: "syntactic"})
		return
	}
	o := &Obl{Name: fe.name + "/" + kind + ":" + full, Func: fe.name, Kind: kind, Label: full, Pos: len(fe.items), Goal: g,
		Clause: clause, SrcPos: fe.eng.relPos(pos), fe: fe}
	fe.obls = append(fe.obls, o)
	// assert-then-assume (not for obligations marked check-only: an undischargeable one must not make the rest vacuous)
	if fe.checkOnly {
		return
	}
	fe.items = append(fe.items, Item{Text: "(assert " + g.S + ")", Guard: path.S})
}

// cover: a vacuity guard — the path must not be refutable from the assumed contracts, invariants and stubs.
func (fe *FuncEnc) cover(label string, path Term, pos token.Pos) {
	if path.S == "true" {
		return
	}
	fe.cur.labelCnt["cover:"+label]++
	if n := fe.cur.labelCnt["cover:"+label]; n > 1 {
		label = fmt.Sprintf("%s#%d", label, n)
	}
	fe.obls = append(fe.obls, &Obl{Name: fe.name + "/cover:" + label, Func: fe.name, Kind: "cover", Label: label, Pos: len(fe.items), Goal: path,
		Clause: "vacuity guard: this return is reachable under the assumptions", SrcPos: fe.eng.relPos(pos), fe: fe, ExpectSat: true})
}

// srcLabel gives a stable label from the source text around pos.
func (fe *FuncEnc) srcLabel(pos token.Pos, want string) string {
	if !pos.IsValid() {
		return "?"
	}
	file := fe.eng.files[fe.eng.fset.Position(pos).Filename]
	if file == nil {
		return "?"
	}
	path, _ := astutil.PathEnclosingInterval(file, pos, pos)
	for _, n := range path {
		switch x := n.(type) {
		case *ast.IndexExpr:
			if want == "index" {
				return fe.eng.nodeText(x)
			}
		case *ast.SliceExpr:
			if want == "slice" {
				return fe.eng.nodeText(x)
			}
		case *ast.SelectorExpr:
			if want == "nil" {
				return fe.eng.nodeText(x)
			}
		case *ast.StarExpr:
			if want == "nil" {
				return fe.eng.nodeText(x)
			}
		case *ast.TypeAssertExpr:
			if want == "assert" {
				return fe.eng.nodeText(x)
			}
		case *ast.BinaryExpr:
			if want == "binop" {
				return fe.eng.nodeText(x)
			}
		case *ast.CallExpr:
			if want == "call" || want == "nil" {
				return fe.eng.nodeText(x.Fun)
			}
		case *ast.AssignStmt:
			if want == "assign" {
				return fe.eng.nodeText(x.Lhs[0])
			}
		case *ast.RangeStmt:
			if want == "nil" || want == "index" {
				return "range " + fe.eng.nodeText(x.X)
			}
		case ast.Stmt:
			t := fe.eng.nodeText(x)
			if len(t) > 60 {
				t = t[:60]
			}
			return t
		}
	}
	return "?"
}

// ---------------------------------------------------------------------
// values

func (fe *FuncEnc) val(v ssa.Value) Term {
	switch x := v.(type) {
	case *ssa.Const:
		return fe.constTerm(x)
	case *ssa.Global:
		engErr("%s: global %s used as a value", fe.name, x.Name())
	case *ssa.Function:
		return tInt(int64(fe.eng.sorts.tagOf(x.Type())) + 1000)
	case *ssa.Builtin:
		engErr("builtin as value")
	}
	for f := fe.cur; f != nil; f = f.parent {
		if t, ok := f.vals[v]; ok {
			return t
		}
		if f != fe.cur {
			break
		}
	}
	engErr("%s: no term for value %s = %s", fe.name, v.Name(), v.String())
	return Term{}
}

func (fe *FuncEnc) setVal(v ssa.Value, t Term) {
	if t.Sort == "TUPLE" {
		engErr("tuple as value")
	}
	fe.cur.vals[v] = fe.define(v.Name(), t)
}

func (fe *FuncEnc) constTerm(c *ssa.Const) Term {
	so := fe.eng.sorts
	if c.Value == nil {
		return so.zero(c.Type())
	}
	s := so.sortOf(c.Type())
	switch s {
	case SBool:
		return tBool(constant.BoolVal(c.Value))
	case SInt:
		i, ok := constant.Int64Val(constant.ToInt(c.Value))
		if !ok {
			bi, _ := new(big.Int).SetString(constant.ToInt(c.Value).ExactString(), 10)
			return tBigInt(bi)
		}
		return tInt(i)
	case SBV64:
		i, _ := constant.Int64Val(constant.ToInt(c.Value))
		return tBV64(uint64(i))
	case SF64:
		f, _ := constant.Float64Val(constant.ToFloat(c.Value))
		return tF64(f)
	case SStr:
		return fe.eng.strConst(constant.StringVal(c.Value))
	}
	engErr("constant of sort %s: %s", s, c)
	return Term{}
}

// wf returns type-based well-formedness facts that hold for every value of Go type t.
func (fe *FuncEnc) wf(x Term, t types.Type, st *State) Term {
	switch u := t.Underlying().(type) {
	case *types.Slice:
		a := fe.comp(st, "A_E_"+fe.eng.sorts.elemKey(u.Elem()), arrSort(SInt, SBool))
		return Term{fmt.Sprintf("(and (wfSlice %s) (=> (not (= (s.ref %s) 0)) (select %s (s.ref %s))))", x.S, x.S, a.S, x.S), SBool}
	case *types.Interface:
		aArr := fe.comp(st, "A_E_Val", arrSort(SInt, SBool))
		aObj := fe.comp(st, "A_M_Str_Val", arrSort(SInt, SBool))
		extra := ""
		for _, dt := range fe.eng.dynTypes {
			wantPkg := "interpreter"
			if fe.fn != nil && fe.fn.Pkg != nil && fe.fn.Pkg.Pkg.Name() == "parser" {
				wantPkg = "ast"
			}
			if n, _, ok := fe.structOfPointer(dt); ok && n.Obj().Pkg().Name() == wantPkg {
				a := fe.comp(st, "A_H_"+sanitize(fe.eng.sorts.shortTypeName(n)), arrSort(SInt, SBool))
				extra += fmt.Sprintf(" (=> (and ((_ is VPtr) %s) (= (vptag %s) %d) (> (vpref %s) 0)) (select %s (vpref %s)))", x.S, x.S, fe.eng.sorts.tagOf(dt), x.S, a.S, x.S)
			}
		}
		return Term{fmt.Sprintf("(and (wfVal %s) (=> (and ((_ is VArr) %s) (not (= (s.ref (varr %s)) 0))) (select %s (s.ref (varr %s)))) (=> (and ((_ is VObj) %s) (not (= (vobj %s) 0))) (select %s (vobj %s)))%s)",
			x.S, x.S, x.S, aArr.S, x.S, x.S, x.S, aObj.S, x.S, extra), SBool}
	case *types.Pointer:
		facts := []Term{tLe(tInt(0), x)}
		if aset := fe.allocSetOfPointee(u.Elem()); aset != "" {
			a := fe.comp(st, aset, arrSort(SInt, SBool))
			facts = append(facts, tImp(tNot(tEq(x, tInt(0))), tSelect(a, x)))
		}
		return tAnd(facts...)
	case *types.Map:
		a := fe.comp(st, "A_M_"+fe.mapKey(u), arrSort(SInt, SBool))
		return tAnd(tLe(tInt(0), x), tImp(tNot(tEq(x, tInt(0))), tSelect(a, x)))
	case *types.Basic:
		if x.Sort == SInt {
			switch u.Kind() {
			case types.Int32:
				return Term{fmt.Sprintf("(and (<= (- 2147483648) %s) (<= %s 2147483647))", x.S, x.S), SBool}
			default:
				return Term{fmt.Sprintf("(and (<= (- 9223372036854775808) %s) (< %s 9223372036854775808))", x.S, x.S), SBool}
			}
		}
	case *types.Struct:
		s := fe.eng.sorts.sortOf(t)
		if info := fe.eng.sorts.structInfo(s); info != nil {
			var facts []Term
			for i := 0; i < u.NumFields(); i++ {
				ft := u.Field(i).Type()
				fx := Term{"(" + info.Fields[i] + " " + x.S + ")", info.FSorts[i]}
				switch ft.Underlying().(type) {
				case *types.Slice, *types.Interface, *types.Struct:
					facts = append(facts, fe.wf(fx, ft, st))
				case *types.Basic:
					if info.FSorts[i] == SInt {
						facts = append(facts, fe.wf(fx, ft, st))
					}
				}
			}
			return tAnd(facts...)
		}
	}
	return tBool(true)
}

func (fe *FuncEnc) allocSetOfPointee(elem types.Type) string {
	if n, ok := elem.(*types.Named); ok {
		if _, ok := n.Underlying().(*types.Struct); ok {
			if fe.eng.sorts.isRepoType(n) {
				return "A_H_" + sanitize(fe.eng.sorts.shortTypeName(n))
			}
			return "A_X_" + sanitize(fe.eng.sorts.shortTypeName(n))
		}
	}
	if a, ok := elem.Underlying().(*types.Array); ok {
		return "A_E_" + fe.eng.sorts.elemKey(a.Elem())
	}
	return "A_C_" + sortKey(fe.eng.sorts.sortOf(elem))
}

func sortKey(s Sort) string { return sanitize(string(s)) }

func (fe *FuncEnc) mapKey(m *types.Map) string { return fe.eng.mapKeyOf(m) }

// ---------------------------------------------------------------------
// addresses

func (fe *FuncEnc) structOfPointer(t types.Type) (*types.Named, *types.Struct, bool) {
	p, ok := t.Underlying().(*types.Pointer)
	if !ok {
		return nil, nil, false
	}
	n, ok := p.Elem().(*types.Named)
	if !ok {
		return nil, nil, false
	}
	st, ok := n.Underlying().(*types.Struct)
	if !ok || !fe.eng.sorts.isRepoType(n) {
		return nil, nil, false
	}
	return n, st, true
}

func fieldComp(so *Sorts, n *types.Named, st *types.Struct, i int) string {
	return "H_" + sanitize(so.shortTypeName(n)) + "_" + sanitize(st.Field(i).Name())
}

// addrOf returns the symbolic address denoted by pointer value v.
func (fe *FuncEnc) addrOf(v ssa.Value) *Addr {
	if g, ok := v.(*ssa.Global); ok {
		pkg := "x"
		if g.Pkg != nil {
			pkg = shortPkg(g.Pkg.Pkg.Path())
			if g.Pkg.Pkg.Path() == repoModule {
				pkg = "main"
			}
		}
		return &Addr{Comp: "G_" + sanitize(pkg) + "_" + sanitize(g.Name()), Kind: aGlobal, Typ: g.Type().(*types.Pointer).Elem()}
	}
	if a, ok := fe.cur.addrs[v]; ok {
		return a
	}
	// plain pointer value
	pt := v.Type().Underlying().(*types.Pointer)
	if _, _, ok := fe.structOfPointer(v.Type()); ok {
		return &Addr{Kind: aField, Ref: fe.val(v), Typ: pt.Elem(), Comp: ""} // whole object
	}
	if _, ok := pt.Elem().Underlying().(*types.Array); ok {
		engErr("%s: whole-array access through %s", fe.name, v.Name())
	}
	return &Addr{Comp: "C_" + sortKey(fe.eng.sorts.sortOf(pt.Elem())), Kind: aCell, Ref: fe.val(v), Typ: pt.Elem()}
}

func (fe *FuncEnc) compSort(a *Addr) Sort {
	so := fe.eng.sorts
	switch a.Kind {
	case aGlobal:
		return so.sortOf(a.Typ)
	case aCell:
		return arrSort(SInt, so.sortOf(a.Typ))
	}
	engErr("compSort")
	return ""
}

func applyPath(base Term, path []pathSel) Term {
	for _, p := range path {
		base = Term{"(" + p.info.Fields[p.i] + " " + base.S + ")", p.info.FSorts[p.i]}
	}
	return base
}

func updatePath(base Term, path []pathSel, v Term) Term {
	if len(path) == 0 {
		return v
	}
	p := path[0]
	var args []Term
	for i := range p.info.Fields {
		f := Term{"(" + p.info.Fields[i] + " " + base.S + ")", p.info.FSorts[i]}
		if i == p.i {
			args = append(args, updatePath(f, path[1:], v))
		} else {
			args = append(args, f)
		}
	}
	return Term{app(p.info.Ctor, args...), base.Sort}
}

// load reads the value at address a (of Go type a.Typ).
func (fe *FuncEnc) load(st *State, a *Addr) Term {
	so := fe.eng.sorts
	switch a.Kind {
	case aGlobal:
		return applyPath(fe.comp(st, a.Comp, so.sortOf(baseType(a))), a.Path)
	case aCell:
		return applyPath(tSelect(fe.comp(st, a.Comp, arrSort(SInt, so.sortOf(baseType(a)))), a.Ref), a.Path)
	case aElem:
		es := so.sortOf(baseType(a))
		e := fe.comp(st, a.Comp, arrSort(SInt, arrSort(SInt, es)))
		return applyPath(tSelect(tSelect(e, a.Ref), a.Idx), a.Path)
	case aField:
		if a.Comp == "" {
			// whole struct object
			n := a.Typ.(*types.Named)
			stt := n.Underlying().(*types.Struct)
			s := so.sortOf(n)
			info := so.structInfo(s)
			var args []Term
			for i := 0; i < stt.NumFields(); i++ {
				h := fe.comp(st, fieldComp(so, n, stt, i), arrSort(SInt, info.FSorts[i]))
				args = append(args, tSelect(h, a.Ref))
			}
			if len(args) == 0 {
				return Term{info.Ctor, s}
			}
			return Term{app(info.Ctor, args...), s}
		}
		h := fe.comp(st, a.Comp, arrSort(SInt, so.sortOf(baseType(a))))
		return applyPath(tSelect(h, a.Ref), a.Path)
	}
	engErr("load")
	return Term{}
}

// baseType is the Go type of the cell addressed before Path is applied.
func baseType(a *Addr) types.Type {
	if len(a.Path) == 0 {
		return a.Typ
	}
	return a.Path[0].info.namedType
}

func (fe *FuncEnc) store(st *State, a *Addr, v Term) {
	so := fe.eng.sorts
	switch a.Kind {
	case aGlobal:
		old := fe.comp(st, a.Comp, so.sortOf(baseType(a)))
		fe.setComp(st, a.Comp, updatePath(old, a.Path, v))
	case aCell:
		h := fe.comp(st, a.Comp, arrSort(SInt, so.sortOf(baseType(a))))
		nv := updatePath(tSelect(h, a.Ref), a.Path, v)
		fe.setComp(st, a.Comp, tStore(h, a.Ref, nv))
	case aElem:
		es := so.sortOf(baseType(a))
		e := fe.comp(st, a.Comp, arrSort(SInt, arrSort(SInt, es)))
		row := tSelect(e, a.Ref)
		nv := updatePath(tSelect(row, a.Idx), a.Path, v)
		fe.setComp(st, a.Comp, tStore(e, a.Ref, tStore(row, a.Idx, nv)))
	case aField:
		if a.Comp == "" {
			n := a.Typ.(*types.Named)
			stt := n.Underlying().(*types.Struct)
			info := so.structInfo(so.sortOf(n))
			for i := 0; i < stt.NumFields(); i++ {
				c := fieldComp(so, n, stt, i)
				h := fe.comp(st, c, arrSort(SInt, info.FSorts[i]))
				fv := Term{"(" + info.Fields[i] + " " + v.S + ")", info.FSorts[i]}
				fe.setComp(st, c, tStore(h, a.Ref, fv))
			}
			return
		}
		h := fe.comp(st, a.Comp, arrSort(SInt, so.sortOf(baseType(a))))
		nv := updatePath(tSelect(h, a.Ref), a.Path, v)
		fe.setComp(st, a.Comp, tStore(h, a.Ref, nv))
	}
}

// ---------------------------------------------------------------------
// interface values

func (fe *FuncEnc) toVal(x Term, t types.Type) Term {
	so := fe.eng.sorts
	if _, ok := t.Underlying().(*types.Interface); ok {
		return x
	}
	named, isNamed := t.(*types.Named)
	switch u := t.Underlying().(type) {
	case *types.Basic:
		if isNamed {
			if x.Sort == SInt {
				return Term{fmt.Sprintf("(VOther %d %s)", so.tagOf(t), x.S), SVal}
			}
			break
		}
		switch x.Sort {
		case SBool:
			return Term{"(VBool " + x.S + ")", SVal}
		case SF64:
			return Term{"(VF64 " + x.S + ")", SVal}
		case SBV64:
			return Term{"(VI64 " + x.S + ")", SVal}
		case SStr:
			return Term{"(VStr " + x.S + ")", SVal}
		case SInt:
			if u.Kind() == types.Int {
				return Term{"(VInt " + x.S + ")", SVal}
			}
			return Term{fmt.Sprintf("(VOther %d %s)", so.tagOf(t), x.S), SVal}
		}
	case *types.Slice:
		if isRuneSlice(t) {
			return Term{"(VRunes " + x.S + ")", SVal}
		}
		if isValSlice(t) {
			return Term{"(VArr " + x.S + ")", SVal}
		}
		return Term{fmt.Sprintf("(VOther %d (s.ref %s))", so.tagOf(t), x.S), SVal}
	case *types.Map:
		if isObjMap(t) {
			return Term{"(VObj " + x.S + ")", SVal}
		}
		return Term{fmt.Sprintf("(VOther %d %s)", so.tagOf(t), x.S), SVal}
	case *types.Pointer:
		return Term{fmt.Sprintf("(VPtr %d %s)", so.tagOf(t), x.S), SVal}
	case *types.Struct:
		if u.NumFields() == 0 {
			return Term{fmt.Sprintf("(VStruct %d)", so.tagOf(t)), SVal}
		}
		id := fe.fresh("boxed", SInt)
		return Term{fmt.Sprintf("(VOther %d %s)", so.tagOf(t), id.S), SVal}
	case *types.Signature:
		return Term{fmt.Sprintf("(VOther %d %s)", so.tagOf(t), x.S), SVal}
	}
	_ = named
	engErr("toVal: unsupported dynamic type %s", t)
	return Term{}
}

func isRuneSlice(t types.Type) bool {
	s, ok := t.Underlying().(*types.Slice)
	if !ok {
		return false
	}
	b, ok := s.Elem().Underlying().(*types.Basic)
	return ok && b.Kind() == types.Int32 && !isNamedType(t)
}
func isNamedType(t types.Type) bool { _, ok := t.(*types.Named); return ok }
func isValSlice(t types.Type) bool {
	s, ok := t.Underlying().(*types.Slice)
	if !ok || isNamedType(t) {
		return false
	}
	i, ok := s.Elem().Underlying().(*types.Interface)
	return ok && i.NumMethods() == 0
}
func isObjMap(t types.Type) bool {
	m, ok := t.Underlying().(*types.Map)
	if !ok || isNamedType(t) {
		return false
	}
	b, ok := m.Key().Underlying().(*types.Basic)
	if !ok || b.Kind() != types.String {
		return false
	}
	i, ok := m.Elem().Underlying().(*types.Interface)
	return ok && i.NumMethods() == 0
}

// typeTest: does interface value v hold dynamic type t (concrete), or implement t (interface)?
func (fe *FuncEnc) typeTest(v Term, t types.Type) Term {
	so := fe.eng.sorts
	if it, ok := t.Underlying().(*types.Interface); ok {
		if it.NumMethods() == 0 {
			return tNot(tEq(v, Term{"VNil", SVal}))
		}
		var alts []Term
		for _, dt := range fe.eng.dynTypes {
			if types.Implements(dt, it) {
				alts = append(alts, fe.typeTest(v, dt))
			}
		}
		if isErrorIface(it) {
			alts = append(alts, Term{fmt.Sprintf("(and ((_ is VOther) %s) (= (votag %s) %d))", v.S, v.S, errTag), SBool})
		}
		return tOr(alts...)
	}
	_, isNamed := t.(*types.Named)
	is := func(c string) Term { return Term{"((_ is " + c + ") " + v.S + ")", SBool} }
	other := func() Term {
		return Term{fmt.Sprintf("(and ((_ is VOther) %s) (= (votag %s) %d))", v.S, v.S, so.tagOf(t)), SBool}
	}
	switch u := t.Underlying().(type) {
	case *types.Basic:
		if isNamed {
			return other()
		}
		switch so.sortOf(t) {
		case SBool:
			return is("VBool")
		case SF64:
			return is("VF64")
		case SBV64:
			return is("VI64")
		case SStr:
			return is("VStr")
		case SInt:
			if u.Kind() == types.Int {
				return is("VInt")
			}
			return other()
		}
	case *types.Slice:
		if isRuneSlice(t) {
			return is("VRunes")
		}
		if isValSlice(t) {
			return is("VArr")
		}
		return other()
	case *types.Map:
		if isObjMap(t) {
			return is("VObj")
		}
		return other()
	case *types.Pointer:
		return Term{fmt.Sprintf("(and ((_ is VPtr) %s) (= (vptag %s) %d))", v.S, v.S, so.tagOf(t)), SBool}
	case *types.Struct:
		if u.NumFields() == 0 {
			return Term{fmt.Sprintf("(and ((_ is VStruct) %s) (= (vstag %s) %d))", v.S, v.S, so.tagOf(t)), SBool}
		}
		return other()
	case *types.Signature:
		return other()
	}
	engErr("typeTest: %s", t)
	return Term{}
}

const errTag = 999

func isErrorIface(it *types.Interface) bool {
	return it.NumMethods() == 1 && it.Method(0).Name() == "Error"
}

// fromVal extracts the payload of dynamic type t from v (meaningful only under typeTest).
func (fe *FuncEnc) fromVal(v Term, t types.Type) Term {
	so := fe.eng.sorts
	if _, ok := t.Underlying().(*types.Interface); ok {
		return v
	}
	_, isNamed := t.(*types.Named)
	s := so.sortOf(t)
	switch u := t.Underlying().(type) {
	case *types.Basic:
		if isNamed && s == SInt {
			return Term{"(voval " + v.S + ")", SInt}
		}
		switch s {
		case SBool:
			return Term{"(vbool " + v.S + ")", s}
		case SF64:
			return Term{"(vf64 " + v.S + ")", s}
		case SBV64:
			return Term{"(vi64 " + v.S + ")", s}
		case SStr:
			return Term{"(vstr " + v.S + ")", s}
		case SInt:
			if u.Kind() == types.Int {
				return Term{"(vint " + v.S + ")", s}
			}
			return Term{"(voval " + v.S + ")", s}
		}
	case *types.Slice:
		if isRuneSlice(t) {
			return Term{"(vrunes " + v.S + ")", s}
		}
		if isValSlice(t) {
			return Term{"(varr " + v.S + ")", s}
		}
	case *types.Map:
		if isObjMap(t) {
			return Term{"(vobj " + v.S + ")", s}
		}
		return Term{"(voval " + v.S + ")", s}
	case *types.Pointer:
		return Term{"(vpref " + v.S + ")", s}
	case *types.Struct:
		return so.zeroOfSort(s) // empty structs; boxed non-empty structs lose content
	case *types.Signature:
		return Term{"(voval " + v.S + ")", s}
	}
	engErr("fromVal: %s", t)
	return Term{}
}

// comparable(v): the dynamic type of v is comparable
func valUncomparable(v Term) Term {
	return Term{fmt.Sprintf("(or ((_ is VRunes) %s) ((_ is VArr) %s) ((_ is VObj) %s))", v.S, v.S, v.S), SBool}
}

func sameUncomparableKind(a, b Term) Term {
	return Term{fmt.Sprintf("(or (and ((_ is VRunes) %s) ((_ is VRunes) %s)) (and ((_ is VArr) %s) ((_ is VArr) %s)) (and ((_ is VObj) %s) ((_ is VObj) %s)))",
		a.S, b.S, a.S, b.S, a.S, b.S), SBool}
}

// ifaceEq: Go == on two interface values (when it does not panic)
func ifaceEq(a, b Term) Term {
	return Term{fmt.Sprintf("(ite (and ((_ is VF64) %s) ((_ is VF64) %s)) (fp.eq (vf64 %s) (vf64 %s)) (= %s %s))", a.S, b.S, a.S, b.S, a.S, b.S), SBool}
}

// ---------------------------------------------------------------------

func sortStrings(m map[string]bool) []string {
	var out []string
	for k := range m {
		out = append(out, k)
	}
	sort.Strings(out)
	return out
}

func (fe *FuncEnc) conReveal() []string {
	if fe.con == nil {
		return nil
	}
	return fe.con.Reveal
}
