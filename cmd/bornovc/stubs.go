package main

// Trusted stubs for external (standard library, x/text) functions.

import (
	"fmt"
	"go/token"
	"strings"

	"golang.org/x/tools/go/ssa"
)

var extraPrelude = `(define-fun goquo ((a Int) (b Int)) Int (ite (>= a 0) (ite (> b 0) (div a b) (- (div a (- b)))) (ite (> b 0) (- (div (- a) b)) (div (- a) (- b)))))
(define-fun gorem ((a Int) (b Int)) Int (- a (* b (goquo a b))))
(define-fun f2i64 ((x F64)) BV64 (ite (and (fp.leq ` + tF64(-9223372036854775808.0).S + ` x) (fp.lt x ` + tF64(9223372036854775808.0).S + `)) ((_ fp.to_sbv 64) RTZ x) #x8000000000000000))
;@opaque f2i64 ofInt
(define-fun ofInt ((b BV64)) F64 ((_ to_fp 11 53) RNE b))
(declare-fun str.of ((Array Int Int) Int Int) Str)
(declare-fun str.blen (Str) Int)
(assert (forall ((a (Array Int Int)) (o Int) (n Int)) (! (=> (>= n 0) (= (cplen (str.of a o n)) n)) :pattern ((str.of a o n)))))
(assert (forall ((a (Array Int Int)) (o Int) (n Int) (k Int)) (! (=> (and (<= 0 k) (< k n)) (= (cp (str.of a o n) k) (select a (+ o k)))) :pattern ((cp (str.of a o n) k)))))
(declare-fun fmt.v (Val) Str)
(declare-fun fmt.sprintf (Str (Array Int Val) Int Int) Str)
(declare-fun fmt.sprintf0 (Str) Str)
(declare-fun fmt.sprintf1 (Str Val) Str)
(declare-fun fmt.sprintf2 (Str Val Val) Str)
(declare-fun fmt.sprintf3 (Str Val Val Val) Str)
(declare-fun fmt.sprintf4 (Str Val Val Val Val) Str)
(declare-fun fmt.sprintln ((Array Int Val) Int Int) Str)
(declare-fun fmt.sprint ((Array Int Val) Int Int) Str)
(declare-const str_nl Str)
(declare-fun ext.parsefloat.ok (Str) Bool)
(declare-fun ext.parsefloat.val (Str) F64)
(declare-fun ext.isletter (Int) Bool)
(declare-fun ext.ismark (Int) Bool)
(declare-fun ext.pow (F64 F64) F64)
(declare-fun ext.mod (F64 F64) F64)
(declare-fun ext.sin (F64) F64)
(declare-fun ext.cos (F64) F64)
(declare-fun ext.tan (F64) F64)
(declare-fun ext.nfc (Str) Str)
(declare-fun ext.trimspace (Str) Str)
(declare-fun ext.fileext (Str) Str)
(declare-fun ext.builder.add (Str Int) Str)
(declare-fun ext.errtext (Val) Str)
(declare-fun ext.bytes2str ((Array Int Int) Int Int) Str)
(declare-fun str.lt (Str Str) Bool)
(declare-fun refl.box (Val) Int)
(declare-fun refl.ptr (Int) Int)
(assert (forall ((r Int)) (! (= (refl.ptr (refl.box (VObj r))) r) :pattern ((refl.box (VObj r))))))
`

// I/O ghost components and their sorts.
var ioComps = map[string]Sort{
	"G_io_Exited":   SBool,
	"G_io_ExitCode": SInt,
	"G_io_OutN":     SInt,
	"G_io_Out":      arrSort(SInt, SStr),
	"G_io_ErrN":     SInt,
	"G_io_Err":      arrSort(SInt, SStr),
	"G_io_InPos":    SInt,
	"G_io_Clock":    SInt,
	// stdin as a sequence of lines: InLines of them, the last possibly without a newline; Delivered = lines handed to the program
	"G_io_InLines":          SInt,
	"G_io_LastUnterminated": SBool,
	"G_io_Delivered":        SInt,
	"XR_pos":                "(Array Int Int)",
	"XR_ahead":              "(Array Int Int)",
}

type stubFn func(fe *FuncEnc, f *Frame, args []Term, argVals []ssa.Value, st *State, path Term, pos token.Pos) []Term

type stubDef struct {
	mods []string
	fn   stubFn
	note string
}

func io(fe *FuncEnc, st *State, name string) Term { return fe.comp(st, name, ioComps[name]) }

func notExited(fe *FuncEnc, st *State) Term { return tNot(io(fe, st, "G_io_Exited")) }

// writeOut appends text to the stdout (or stderr) log unless the process has exited.
func writeLog(fe *FuncEnc, st *State, which string, text Term) {
	n := io(fe, st, "G_io_"+which+"N")
	log := io(fe, st, "G_io_"+which)
	live := notExited(fe, st)
	fe.setComp(st, "G_io_"+which, tIte(live, tStore(log, n, text), log))
	fe.setComp(st, "G_io_"+which+"N", tIte(live, tAdd(n, tInt(1)), n))
}

// varargs renders (row, off, len) of a []interface{} argument.
func varargs(fe *FuncEnc, st *State, s Term, v ssa.Value) (Term, Term, Term) {
	comp := "E_Val"
	if isVarargsSlice(v) {
		comp = "EV_Val"
	}
	e := fe.comp(st, comp, arrSort(SInt, arrSort(SInt, SVal)))
	return tSelect(e, slRef(s)), slOff(s), slLen(s)
}

// formatted renders fmt.Sprintf(format, args...): fixed small operand lists get a canonical term.
func formatted(fe *FuncEnc, st *State, format Term, s Term, v ssa.Value) Term {
	if n, ok := constLenVarargs(v); ok && n <= 4 {
		row, off, _ := varargs(fe, st, s, v)
		args := []Term{format}
		for k := int64(0); k < n; k++ {
			args = append(args, tSelect(row, tAdd(off, tInt(k))))
		}
		return Term{app(fmt.Sprintf("fmt.sprintf%d", n), args...), SStr}
	}
	if c, ok := v.(*ssa.Const); ok && c.Value == nil {
		return Term{app("fmt.sprintf0", format), SStr}
	}
	row, off, n := varargs(fe, st, s, v)
	return Term{app("fmt.sprintf", format, row, off, n), SStr}
}

func single(fe *FuncEnc, st *State, s Term, v ssa.Value) (Term, bool) {
	if n, ok := constLenVarargs(v); ok && n == 1 {
		row, off, _ := varargs(fe, st, s, v)
		return tSelect(row, off), true
	}
	return Term{}, false
}

var stubs map[string]*stubDef

func init() {
	math1 := func(op string, note string) *stubDef {
		return &stubDef{note: note, fn: func(fe *FuncEnc, f *Frame, a []Term, av []ssa.Value, st *State, p Term, pos token.Pos) []Term {
			return []Term{Term{"(" + op + " " + a[0].S + ")", SF64}}
		}}
	}
	stubs = map[string]*stubDef{
		"fmt.Println": {mods: []string{"G_io_Out", "G_io_OutN"}, note: "fmt.Println writes fmt's rendering of its operands plus a newline to stdout",
			fn: func(fe *FuncEnc, f *Frame, a []Term, av []ssa.Value, st *State, p Term, pos token.Pos) []Term {
				var text Term
				if v, ok := single(fe, st, a[0], av[0]); ok {
					text = Term{"(str.cat (fmt.v " + v.S + ") str_nl)", SStr}
				} else {
					row, off, n := varargs(fe, st, a[0], av[0])
					text = Term{app("fmt.sprintln", row, off, n), SStr}
				}
				writeLog(fe, st, "Out", fe.define("outtext", text))
				return []Term{fe.fresh("n", SInt), Term{"VNil", SVal}}
			}},
		"fmt.Print": {mods: []string{"G_io_Out", "G_io_OutN"}, note: "fmt.Print writes fmt's rendering of its operands to stdout",
			fn: func(fe *FuncEnc, f *Frame, a []Term, av []ssa.Value, st *State, p Term, pos token.Pos) []Term {
				var text Term
				if v, ok := single(fe, st, a[0], av[0]); ok {
					text = Term{"(fmt.v " + v.S + ")", SStr}
				} else {
					row, off, n := varargs(fe, st, a[0], av[0])
					text = Term{app("fmt.sprint", row, off, n), SStr}
				}
				writeLog(fe, st, "Out", fe.define("outtext", text))
				return []Term{fe.fresh("n", SInt), Term{"VNil", SVal}}
			}},
		"fmt.Printf": {mods: []string{"G_io_Out", "G_io_OutN"}, note: "fmt.Printf writes to stdout",
			fn: func(fe *FuncEnc, f *Frame, a []Term, av []ssa.Value, st *State, p Term, pos token.Pos) []Term {
				writeLog(fe, st, "Out", fe.define("outtext", formatted(fe, st, a[0], a[1], av[1])))
				return []Term{fe.fresh("n", SInt), Term{"VNil", SVal}}
			}},
		"fmt.Fprintf": {mods: []string{"G_io_Err", "G_io_ErrN"}, note: "fmt.Fprintf is only ever called with os.Stderr (checked syntactically)",
			fn: func(fe *FuncEnc, f *Frame, a []Term, av []ssa.Value, st *State, p Term, pos token.Pos) []Term {
				// the writer must be os.Stderr
				ok := false
				if mi, isMI := av[0].(*ssa.MakeInterface); isMI {
					if u, isU := mi.X.(*ssa.UnOp); isU {
						if g, isG := u.X.(*ssa.Global); isG && g.Pkg != nil && g.Pkg.Pkg.Path() == "os" && g.Name() == "Stderr" {
							ok = true
						}
					}
				}
				if !ok {
					engErr("%s: fmt.Fprintf to a writer other than os.Stderr", fe.name)
				}
				writeLog(fe, st, "Err", fe.define("errtext", formatted(fe, st, a[1], a[2], av[2])))
				return []Term{fe.fresh("n", SInt), Term{"VNil", SVal}}
			}},
		"fmt.Sprintf": {note: "fmt.Sprintf is an uninterpreted function of its format and operands; \"%v\" of one operand is fmt.v(operand)",
			fn: func(fe *FuncEnc, f *Frame, a []Term, av []ssa.Value, st *State, p Term, pos token.Pos) []Term {
				if c, ok := av[0].(*ssa.Const); ok && c.Value != nil && strings.Trim(c.Value.ExactString(), "\"") == "%v" {
					if v, ok := single(fe, st, a[1], av[1]); ok {
						// fmt follows slices and maps without cycle detection: formatting a value that (transitively) contains
						// itself recurses until the Go stack is exhausted. Precondition of the stub, checked at the call.
						if v.Sort == SVal {
							fe.checkOnly = true
							n0 := len(fe.obls)
							fe.emit("safety.fmtcycle", fe.srcLabel(pos, "call"), p, Term{"(acyclicVal " + v.S + ")", SBool}, "the value formatted with %v does not contain itself (fmt does not detect cycles: fatal stack overflow)", pos)
							for _, o := range fe.obls[n0:] {
								o.Props = []string{"C07"}
							}
							fe.checkOnly = false
						}
						return []Term{Term{"(fmt.v " + v.S + ")", SStr}}
					}
				}
				return []Term{formatted(fe, st, a[0], a[1], av[1])}
			}},
		"fmt.Sprint": {note: "fmt.Sprint is uninterpreted",
			fn: func(fe *FuncEnc, f *Frame, a []Term, av []ssa.Value, st *State, p Term, pos token.Pos) []Term {
				row, off, n := varargs(fe, st, a[0], av[0])
				return []Term{Term{app("fmt.sprint", row, off, n), SStr}}
			}},
		"fmt.Errorf": {note: "fmt.Errorf returns a non-nil error",
			fn: func(fe *FuncEnc, f *Frame, a []Term, av []ssa.Value, st *State, p Term, pos token.Pos) []Term {
				id := fe.fresh("err", SInt)
				fe.assume(tBool(true), tLt(tInt(0), id))
				return []Term{Term{fmt.Sprintf("(VOther %d %s)", errTag, id.S), SVal}}
			}},
		"os.Exit": {mods: []string{"G_io_Exited", "G_io_ExitCode"}, note: "os.Exit ends the process: later effects are void; the first exit code wins",
			fn: func(fe *FuncEnc, f *Frame, a []Term, av []ssa.Value, st *State, p Term, pos token.Pos) []Term {
				ex := io(fe, st, "G_io_Exited")
				code := io(fe, st, "G_io_ExitCode")
				fe.setComp(st, "G_io_ExitCode", tIte(ex, code, a[0]))
				fe.setComp(st, "G_io_Exited", tBool(true))
				return nil
			}},
		"os.ReadFile": {note: "os.ReadFile returns either (contents, nil) or (nil, non-nil error)",
			fn: func(fe *FuncEnc, f *Frame, a []Term, av []ssa.Value, st *State, p Term, pos token.Pos) []Term {
				data := fe.fresh("filedata", SSlice)
				err := fe.fresh("readerr", SVal)
				fe.assume(tBool(true), Term{fmt.Sprintf("(and (wfSlice %s) (or (= %s VNil) (and ((_ is VOther) %s) (= (votag %s) %d))))", data.S, err.S, err.S, err.S, errTag), SBool})
				return []Term{data, err}
			}},
		"path/filepath.Ext": {note: "filepath.Ext is uninterpreted",
			fn: func(fe *FuncEnc, f *Frame, a []Term, av []ssa.Value, st *State, p Term, pos token.Pos) []Term {
				return []Term{Term{"(ext.fileext " + a[0].S + ")", SStr}}
			}},
		"strings.TrimSpace": {note: "strings.TrimSpace is uninterpreted",
			fn: func(fe *FuncEnc, f *Frame, a []Term, av []ssa.Value, st *State, p Term, pos token.Pos) []Term {
				return []Term{Term{"(ext.trimspace " + a[0].S + ")", SStr}}
			}},
		"(*strings.Builder).WriteRune": {mods: []string{"X_strings_Builder"}, note: "strings.Builder accumulates code points",
			fn: func(fe *FuncEnc, f *Frame, a []Term, av []ssa.Value, st *State, p Term, pos token.Pos) []Term {
				h := fe.comp(st, "X_strings_Builder", arrSort(SInt, SInt))
				_ = h
				hs := fe.comp(st, "XS_strings_Builder", arrSort(SInt, SStr))
				fe.setComp(st, "XS_strings_Builder", tStore(hs, a[0], Term{fmt.Sprintf("(ext.builder.add %s %s)", tSelect(hs, a[0]).S, a[1].S), SStr}))
				return []Term{fe.fresh("n", SInt), Term{"VNil", SVal}}
			}},
		"(*strings.Builder).String": {note: "strings.Builder.String returns the accumulated text",
			fn: func(fe *FuncEnc, f *Frame, a []Term, av []ssa.Value, st *State, p Term, pos token.Pos) []Term {
				hs := fe.comp(st, "XS_strings_Builder", arrSort(SInt, SStr))
				return []Term{tSelect(hs, a[0])}
			}},
		"strconv.ParseFloat": {note: "strconv.ParseFloat: uninterpreted success predicate and value (correct rounding is trusted)",
			fn: func(fe *FuncEnc, f *Frame, a []Term, av []ssa.Value, st *State, p Term, pos token.Pos) []Term {
				ok := Term{"(ext.parsefloat.ok " + a[0].S + ")", SBool}
				id := fe.fresh("err", SInt)
				val := fe.fresh("pf", SF64)
				fe.assume(tBool(true), tImp(ok, tEq(val, Term{"(ext.parsefloat.val " + a[0].S + ")", SF64})))
				return []Term{val, tIte(ok, Term{"VNil", SVal}, Term{fmt.Sprintf("(VOther %d %s)", errTag, id.S), SVal})}
			}},
		"unicode.IsLetter": {note: "unicode.IsLetter is an uninterpreted predicate (false on 0, ASCII digits, blanks and punctuation)",
			fn: func(fe *FuncEnc, f *Frame, a []Term, av []ssa.Value, st *State, p Term, pos token.Pos) []Term {
				return []Term{Term{"(ext.isletter " + a[0].S + ")", SBool}}
			}},
		"unicode.IsMark": {note: "unicode.IsMark is an uninterpreted predicate (false on 0, ASCII digits, blanks and punctuation)",
			fn: func(fe *FuncEnc, f *Frame, a []Term, av []ssa.Value, st *State, p Term, pos token.Pos) []Term {
				return []Term{Term{"(ext.ismark " + a[0].S + ")", SBool}}
			}},
		"math.Pow": {note: "math.Pow is an uninterpreted function",
			fn: func(fe *FuncEnc, f *Frame, a []Term, av []ssa.Value, st *State, p Term, pos token.Pos) []Term {
				return []Term{Term{app("ext.pow", a[0], a[1]), SF64}}
			}},
		"math.Mod": {note: "math.Mod is an uninterpreted function",
			fn: func(fe *FuncEnc, f *Frame, a []Term, av []ssa.Value, st *State, p Term, pos token.Pos) []Term {
				return []Term{Term{app("ext.mod", a[0], a[1]), SF64}}
			}},
		"math.Abs":   math1("fp.abs", "math.Abs = IEEE abs"),
		"math.Sqrt":  math1("fp.sqrt RNE", "math.Sqrt = correctly rounded IEEE sqrt"),
		"math.Round": math1("fp.roundToIntegral RNA", "math.Round = roundToIntegral, ties away from zero"),
		"math.Floor": math1("fp.roundToIntegral RTN", "math.Floor = roundToIntegral toward negative"),
		"math.Ceil":  math1("fp.roundToIntegral RTP", "math.Ceil = roundToIntegral toward positive"),
		"math.Trunc": math1("fp.roundToIntegral RTZ", "math.Trunc = roundToIntegral toward zero"),
		"math.RoundToEven": math1("fp.roundToIntegral RNE", "math.RoundToEven = roundToIntegral, ties to even"),
		"math.Copysign": {note: "math.Copysign(x, y) = |x| with the sign of y (the sign bit of a NaN y is not modelled)",
			fn: func(fe *FuncEnc, f *Frame, a []Term, av []ssa.Value, st *State, p Term, pos token.Pos) []Term {
				return []Term{Term{"(ite (fp.isNegative " + a[1].S + ") (fp.neg (fp.abs " + a[0].S + ")) (fp.abs " + a[0].S + "))", SF64}}
			}},
		"math.IsNaN": {note: "math.IsNaN = fp.isNaN",
			fn: func(fe *FuncEnc, f *Frame, a []Term, av []ssa.Value, st *State, p Term, pos token.Pos) []Term {
				return []Term{Term{"(fp.isNaN " + a[0].S + ")", SBool}}
			}},
		"math.IsInf": {note: "math.IsInf(f, sign): sign > 0 +Inf, sign < 0 -Inf, sign == 0 either",
			fn: func(fe *FuncEnc, f *Frame, a []Term, av []ssa.Value, st *State, p Term, pos token.Pos) []Term {
				x, sg := a[0].S, a[1].S
				return []Term{Term{"(and (fp.isInfinite " + x + ") (or (= " + sg + " 0) (and (> " + sg + " 0) (fp.isPositive " + x + ")) (and (< " + sg + " 0) (fp.isNegative " + x + "))))", SBool}}
			}},
		"math.Inf": {note: "math.Inf(sign): +Inf for sign >= 0, else -Inf",
			fn: func(fe *FuncEnc, f *Frame, a []Term, av []ssa.Value, st *State, p Term, pos token.Pos) []Term {
				return []Term{Term{"(ite (>= " + a[0].S + " 0) (_ +oo 11 53) (_ -oo 11 53))", SF64}}
			}},
		"math.NaN": {note: "math.NaN() is a NaN",
			fn: func(fe *FuncEnc, f *Frame, a []Term, av []ssa.Value, st *State, p Term, pos token.Pos) []Term {
				return []Term{Term{"(_ NaN 11 53)", SF64}}
			}},
		"math.Signbit": {note: "math.Signbit = fp.isNegative (the sign bit of a NaN is not modelled)",
			fn: func(fe *FuncEnc, f *Frame, a []Term, av []ssa.Value, st *State, p Term, pos token.Pos) []Term {
				return []Term{Term{"(fp.isNegative " + a[0].S + ")", SBool}}
			}},
		"math.Max": {note: "math.Max: +Inf if either is +Inf, NaN if either is NaN, Max(+0,-0) = +0, else the larger",
			fn: func(fe *FuncEnc, f *Frame, a []Term, av []ssa.Value, st *State, p Term, pos token.Pos) []Term {
				x, y := a[0].S, a[1].S
				return []Term{Term{"(ite (or (and (fp.isInfinite " + x + ") (fp.isPositive " + x + ")) (and (fp.isInfinite " + y + ") (fp.isPositive " + y + "))) (_ +oo 11 53) (ite (or (fp.isNaN " + x + ") (fp.isNaN " + y + ")) (_ NaN 11 53) (ite (and (fp.isZero " + x + ") (fp.isZero " + y + ")) (ite (fp.isNegative " + x + ") " + y + " " + x + ") (ite (fp.gt " + x + " " + y + ") " + x + " " + y + "))))", SF64}}
			}},
		"math.Min": {note: "math.Min: -Inf if either is -Inf, NaN if either is NaN, Min(+0,-0) = -0, else the smaller",
			fn: func(fe *FuncEnc, f *Frame, a []Term, av []ssa.Value, st *State, p Term, pos token.Pos) []Term {
				x, y := a[0].S, a[1].S
				return []Term{Term{"(ite (or (and (fp.isInfinite " + x + ") (fp.isNegative " + x + ")) (and (fp.isInfinite " + y + ") (fp.isNegative " + y + "))) (_ -oo 11 53) (ite (or (fp.isNaN " + x + ") (fp.isNaN " + y + ")) (_ NaN 11 53) (ite (and (fp.isZero " + x + ") (fp.isZero " + y + ")) (ite (fp.isNegative " + x + ") " + x + " " + y + ") (ite (fp.lt " + x + " " + y + ") " + x + " " + y + "))))", SF64}}
			}},
		"math.Sin":   math1("ext.sin", "math.Sin uninterpreted"),
		"math.Cos":   math1("ext.cos", "math.Cos uninterpreted"),
		"math.Tan":   math1("ext.tan", "math.Tan uninterpreted"),
		"(golang.org/x/text/unicode/norm.Form).String": {note: "norm.NFC.String is uninterpreted (NFC normalisation is trusted)",
			fn: func(fe *FuncEnc, f *Frame, a []Term, av []ssa.Value, st *State, p Term, pos token.Pos) []Term {
				return []Term{Term{"(ext.nfc " + a[1].S + ")", SStr}}
			}},
		"time.Now": {mods: []string{"G_io_Clock"}, note: "time.Now reads the wall clock (nondeterministic)",
			fn: func(fe *FuncEnc, f *Frame, a []Term, av []ssa.Value, st *State, p Term, pos token.Pos) []Term {
				t := fe.fresh("now", SInt)
				fe.setComp(st, "G_io_Clock", t)
				return []Term{t}
			}},
		"(time.Time).UnixMilli": {note: "Time.UnixMilli returns the clock reading as int64",
			fn: func(fe *FuncEnc, f *Frame, a []Term, av []ssa.Value, st *State, p Term, pos token.Pos) []Term {
				return []Term{Term{"(i2s " + a[0].S + ")", SBV64}}
			}},
		"reflect.ValueOf": {note: "reflect.ValueOf boxes a value (uninterpreted injective box)",
			fn: func(fe *FuncEnc, f *Frame, a []Term, av []ssa.Value, st *State, p Term, pos token.Pos) []Term {
				return []Term{Term{"(refl.box " + a[0].S + ")", SInt}}
			}},
		"(reflect.Value).Pointer": {note: "reflect.Value.Pointer of a map is its reference (identity)",
			fn: func(fe *FuncEnc, f *Frame, a []Term, av []ssa.Value, st *State, p Term, pos token.Pos) []Term {
				return []Term{Term{"(refl.ptr " + a[0].S + ")", SInt}}
			}},
		"sort.Strings": {mods: []string{"E_Str"}, note: "sort.Strings permutes the slice into ascending order (strictly ascending when the elements are distinct)",
			fn: func(fe *FuncEnc, f *Frame, a []Term, av []ssa.Value, st *State, p Term, pos token.Pos) []Term {
				s := a[0]
				e := fe.comp(st, "E_Str", arrSort(SInt, arrSort(SInt, SStr)))
				old := fe.define("unsorted", tSelect(e, slRef(s)))
				row := fe.fresh("sorted", arrSort(SInt, SStr))
				lo := slOff(s).S
				hi := "(+ " + lo + " (s.len " + s.S + "))"
				fe.assume(tBool(true), Term{fmt.Sprintf("(forall ((j Int)) (! (=> (and (<= %s j) (< j %s)) (exists ((i Int)) (and (<= %s i) (< i %s) (= (select %s j) (select %s i))))) :pattern ((select %s j))))", lo, hi, lo, hi, row.S, old.S, row.S), SBool})
				fe.assume(tBool(true), Term{fmt.Sprintf("(forall ((j Int)) (! (=> (or (< j %s) (>= j %s)) (= (select %s j) (select %s j))) :pattern ((select %s j))))", lo, hi, row.S, old.S, row.S), SBool})
				fe.assume(tBool(true), Term{fmt.Sprintf("(=> (forall ((i Int) (j Int)) (=> (and (<= %s i) (< i j) (< j %s)) (not (= (select %s i) (select %s j))))) (forall ((j Int)) (! (=> (and (<= %s j) (< (+ j 1) %s)) (str.lt (select %s j) (select %s (+ j 1)))) :pattern ((select %s j)))))", lo, hi, old.S, old.S, lo, hi, row.S, row.S, row.S), SBool})
				fe.setComp(st, "E_Str", tStore(e, slRef(s), row))
				return nil
			}},
		"bufio.NewScanner": {note: "bufio.Scanner over stdin: each Scan consumes one line of the ghost input",
			fn: func(fe *FuncEnc, f *Frame, a []Term, av []ssa.Value, st *State, p Term, pos token.Pos) []Term {
				r := fe.fresh("scanner", SInt)
				fe.assume(tBool(true), tLt(tInt(0), r))
				return []Term{r}
			}},
		"(*bufio.Scanner).Scan": {mods: []string{"G_io_InPos"}, note: "Scanner.Scan: true iff another line exists; consumes it",
			fn: func(fe *FuncEnc, f *Frame, a []Term, av []ssa.Value, st *State, p Term, pos token.Pos) []Term {
				ok := fe.fresh("scanned", SBool)
				pos0 := io(fe, st, "G_io_InPos")
				fe.setComp(st, "G_io_InPos", tIte(ok, tAdd(pos0, tInt(1)), pos0))
				return []Term{ok}
			}},
		"(*bufio.Scanner).Text": {note: "Scanner.Text: the line just consumed",
			fn: func(fe *FuncEnc, f *Frame, a []Term, av []ssa.Value, st *State, p Term, pos token.Pos) []Term {
				return []Term{Term{"(ext.inline " + tSub(io(fe, st, "G_io_InPos"), tInt(1)).S + ")", SStr}}
			}},
		"bufio.NewReader": {mods: []string{"XR_pos", "XR_ahead"}, note: "bufio.NewReader(os.Stdin): a reader with an empty buffer, positioned where the raw consumption of stdin stands",
			fn: func(fe *FuncEnc, f *Frame, a []Term, av []ssa.Value, st *State, p Term, pos token.Pos) []Term {
				r := fe.fresh("reader", SInt)
				fe.assume(tBool(true), tLt(tInt(0), r))
				raw := io(fe, st, "G_io_InPos")
				fe.setComp(st, "XR_pos", tStore(io(fe, st, "XR_pos"), r, raw))
				fe.setComp(st, "XR_ahead", tStore(io(fe, st, "XR_ahead"), r, raw))
				return []Term{r}
			}},
		"(*bufio.Reader).ReadString": {mods: []string{"G_io_InPos", "G_io_Delivered", "XR_pos", "XR_ahead"}, note: "Reader.ReadString('\\n'): returns the reader's next line (with io.EOF for a missing or unterminated line); the reader may read ahead arbitrarily far into its private buffer",
			fn: func(fe *FuncEnc, f *Frame, a []Term, av []ssa.Value, st *State, p Term, pos token.Pos) []Term {
				r := a[0]
				xpos := io(fe, st, "XR_pos")
				xah := io(fe, st, "XR_ahead")
				n := io(fe, st, "G_io_InLines")
				deliv := io(fe, st, "G_io_Delivered")
				pp := fe.define("rpos", tSelect(xpos, r))
				// the reader must be in step with what the program has been given: otherwise lines swallowed by another reader's read-ahead are lost
				fe.emit("stdin.sync", fe.srcLabel(pos, "call"), p, tEq(pp, deliv), "C19: the reader used for ইনপুট is positioned at the next undelivered line of stdin (no line was lost in another reader's buffer)", pos)
				fe.obls[len(fe.obls)-1].Props = []string{"C19"}
				// soundness of the shared reader's invariant: once a reader is registered (globalinv), every read must go through it
				registered := false
				viaRegistered := false
				for _, gi := range fe.eng.globalinvs {
					if strings.Contains(gi.Expr.Text, "readerPos") {
						registered = true
						if u, ok := av[0].(*ssa.UnOp); ok {
							if g, ok := u.X.(*ssa.Global); ok && "G_"+sanitize(fe.eng.pkgShort(g.Pkg))+"_"+sanitize(g.Name()) == gi.Comp {
								viaRegistered = true
							}
						}
					}
				}
				if registered && !viaRegistered {
					fe.emit("stdin.single", fe.srcLabel(pos, "call"), p, tBool(false), "C19: stdin is read through a reader other than the shared one", pos)
					fe.obls[len(fe.obls)-1].Props = []string{"C19"}
				}
				has := fe.define("hasline", tLt(pp, n))
				lastUnt := tAnd(tEq(pp, tSub(n, tInt(1))), io(fe, st, "G_io_LastUnterminated"))
				// a missing or unterminated line is reported with io.EOF
				eof := fe.comp(st, "G_io_EOF", SVal)
				errv := tIte(tOr(tNot(has), lastUnt), eof, Term{"VNil", SVal})
				text := tIte(has, Term{"(ext.inline " + pp.S + ")", SStr}, Term{"str_empty", SStr})
				np := fe.define("rpos2", tIte(has, tAdd(pp, tInt(1)), pp))
				ah := fe.fresh("readahead", SInt)
				fe.assume(tBool(true), Term{fmt.Sprintf("(and (>= %s %s) (>= %s %s) (<= %s (ite (>= %s %s) %s %s)))", ah.S, tSelect(xah, r).S, ah.S, np.S, ah.S, n.S, np.S, n.S, np.S), SBool})
				fe.setComp(st, "XR_pos", tStore(xpos, r, np))
				fe.setComp(st, "XR_ahead", tStore(xah, r, ah))
				fe.setComp(st, "G_io_InPos", ah)
				fe.setComp(st, "G_io_Delivered", tIte(has, tAdd(deliv, tInt(1)), deliv))
				return []Term{fe.define("linetext", text), fe.define("readerr", errv)}
			}},
	}
	extraPrelude += "(declare-fun ext.inline (Int) Str)\n(assert (forall ((k Int)) (! (> (cplen (ext.inline k)) 0) :pattern ((ext.inline k)))))\n"
}

func stubMods(callee *ssa.Function) []string {
	if s, ok := stubs[callee.String()]; ok {
		if callee.String() == "(*strings.Builder).WriteRune" {
			return []string{"XS_strings_Builder"}
		}
		return s.mods
	}
	return nil
}

func (fe *FuncEnc) callStub(f *Frame, callee *ssa.Function, args []Term, argVals []ssa.Value, st *State, path Term, pos token.Pos) []Term {
	name := callee.String()
	if callee.Name() == "init" && callee.Signature.Params().Len() == 0 {
		return nil
	}
	s, ok := stubs[name]
	if !ok {
		engErr("%s: no stub for external function %s", fe.name, name)
	}
	fe.trusted["stub:"+name+" — "+s.note] = true
	fe.effectE2(f, name, st, path, pos)
	return s.fn(fe, f, args, argVals, st, path, pos)
}
