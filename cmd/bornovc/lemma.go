package main

import (
	"go/token"
	"go/types"
)

type lemmaHolder struct{}

// lemmaObligations turns every `//@ lemma` into a standalone obligation over the prelude.
func (e *Engine) lemmaObligations() ([]*Obl, error) {
	var out []*Obl
	for _, l := range e.lemmas {
		fe := &FuncEnc{eng: e, name: "lemma." + l.Pkg, declared: map[string]bool{}, inlined: map[string]bool{}, trusted: map[string]bool{}, assumes: map[string]bool{}, bvOffsets: map[string]bvOffset{}, consts: map[string]bool{}}
		fe.con = &Contract{Reveal: e.specs.opaque}
		f := &Frame{params: map[string]Term{}, ptypes: map[string]types.Type{}, labelCnt: map[string]int{}}
		fe.cur = f
		var err error
		func() {
			defer func() {
				if r := recover(); r != nil {
					if ee, ok := r.(*EngineError); ok {
						err = ee
						return
					}
					panic(r)
				}
			}()
			st := &State{heap: map[string]Term{}}
			t := fe.evalClause(f, l.Expr, st, st, nil, nil, token.NoPos)
			fe.emit("lemma", l.Name, tBool(true), t, l.Expr.Text, token.NoPos)
		}()
		if err != nil {
			return out, err
		}
		for _, o := range fe.obls {
			o.Props = l.Props
			out = append(out, o)
		}
	}
	return out, nil
}
