package main

import (
	"go/ast"
	"encoding/json"
	"fmt"
	"go/types"
	"os"
	"path/filepath"
	"runtime/debug"
	"sort"
	"strings"
	"time"

	"golang.org/x/tools/go/ssa"
)

const verifDir = "/verif"

// outDir: where evidence and replay files go; VERIF_OUT redirects them for self-test runs against scratch copies
// (the registered commands never set it).
func outDir() string {
	if d := os.Getenv("VERIF_OUT"); d != "" {
		return d
	}
	return verifDir
}

func (e *Engine) collectDynTypes() {
	seen := map[string]bool{}
	for _, fn := range e.funcs {
		for _, b := range fn.Blocks {
			for _, in := range b.Instrs {
				if mi, ok := in.(*ssa.MakeInterface); ok {
					t := mi.X.Type()
					k := types.TypeString(t, nil)
					if !seen[k] {
						seen[k] = true
						e.dynTypes = append(e.dynTypes, t)
					}
				}
			}
		}
	}
	sort.Slice(e.dynTypes, func(i, j int) bool {
		return types.TypeString(e.dynTypes[i], nil) < types.TypeString(e.dynTypes[j], nil)
	})
}

// encodeFunction symbolically executes fn against its contract.
func (e *Engine) encodeFunction(name string) (fe *FuncEnc, err error) {
	fn := e.funcs[name]
	fe = &FuncEnc{eng: e, fn: fn, name: name, con: e.contracts[name], declared: map[string]bool{}, inlined: map[string]bool{},
		trusted: map[string]bool{}, assumes: map[string]bool{}, bvOffsets: map[string]bvOffset{}, consts: map[string]bool{}}
	defer func() {
		if r := recover(); r != nil {
			if ee, ok := r.(*EngineError); ok {
				err = ee
				return
			}
			err = fmt.Errorf("internal error in %s: %v\n%s", name, r, debug.Stack())
		}
	}()
	if len(fn.Blocks) == 0 {
		return fe, nil
	}
	if fe.con != nil && fe.con.Unreachable != "" {
		e.unverified = append(e.unverified, name+": "+fe.con.Unreachable)
		return fe, nil
	}
	f := fe.newFrame(fn, nil, "")
	fe.cur = f
	st := &State{heap: map[string]Term{}}
	for _, p := range fn.Params {
		s := e.sorts.sortOf(p.Type())
		t := fe.fresh("p_"+p.Name(), s)
		f.vals[p] = t
		f.params[p.Name()] = t
		f.ptypes[p.Name()] = p.Type()
		fe.assume(tBool(true), fe.wf(t, p.Type(), st))
		if _, isIface := p.Type().Underlying().(*types.Interface); isIface {
			// a node passed in exists already: its pointer is allocated in its type's space
			for _, dt := range e.dynTypes {
				if n, _, ok := fe.structOfPointer(dt); ok && n.Obj().Pkg().Name() != "interpreter" {
					a := fe.comp(st, "A_H_"+sanitize(e.sorts.shortTypeName(n)), arrSort(SInt, SBool))
					fe.assume(tBool(true), Term{fmt.Sprintf("(=> (and ((_ is VPtr) %s) (= (vptag %s) %d) (> (vpref %s) 0)) (select %s (vpref %s)))", t.S, t.S, e.sorts.tagOf(dt), t.S, a.S, t.S), SBool})
				}
			}
		}
		fe.inputs = append(fe.inputs, ModelInput{Name: p.Name(), Sym: t.S, Sort: s, Type: types.TypeString(p.Type(), nil)})
	}
	e.aliasRecv(fn, f.params, f.ptypes)
	if fe.con != nil {
		fe.loopOrd(fn, fe.con, 1) // settles the loop matching (and the orphan clauses) before anything is inlined
	}
	// cell invariants hold for every object at all times: assume them for the fields of pointer parameters at entry
	for _, p := range fn.Params {
		n, stt, ok := fe.structOfPointer(p.Type())
		if !ok {
			continue
		}
		info := e.sorts.structInfo(e.sorts.sortOf(n))
		for i := 0; i < stt.NumFields(); i++ {
			comp := fieldComp(e.sorts, n, stt, i)
			if ci := fe.cellInvFor(comp); ci != nil {
				h := fe.comp(st, comp, arrSort(SInt, info.FSorts[i]))
				v := tSelect(h, f.vals[p])
				fe.assume(tNot(tEq(f.vals[p], tInt(0))), fe.evalCellInv(ci, v, stt.Field(i).Type(), st))
			}
		}
	}
	if fn.Name() == "init" || name == "main.main" {
		// process start: nothing consumed from stdin yet
		fe.assume(tBool(true), tAnd(tEq(fe.comp(st, "G_io_InPos", SInt), tInt(0)), tEq(fe.comp(st, "G_io_Delivered", SInt), tInt(0)), tLe(tInt(0), fe.comp(st, "G_io_InLines", SInt))))
	}
	// a method receiver is a complete object: its type invariant holds
	if fn.Signature.Recv() != nil && len(fn.Params) > 0 {
		fe.typeInvAssume(f, f.vals[fn.Params[0]], fn.Params[0].Type(), tNot(tEq(f.vals[fn.Params[0]], tInt(0))), st)
	}
	fe.initMonitor(f, st)
	// nothing runs after the process has exited
	if e.modsetOf(fn)["G_io_Exited"] {
		fe.assume(tBool(true), tNot(fe.comp(st, "G_io_Exited", SBool)))
	}
	f.entry = st.clone()
	icon, msig := e.ifaceContractFor(fn)
	if icon != nil {
		inames := map[string]TV{"recv": {fe.toVal(f.vals[fn.Params[0]], fn.Params[0].Type()), nil}}
		for k := 0; k < msig.Params().Len() && k+1 < len(fn.Params); k++ {
			n := msig.Params().At(k).Name()
			if n != "" && n != "_" {
				inames[n] = TV{f.vals[fn.Params[k+1]], fn.Params[k+1].Type()}
			}
		}
		if fe.con == nil {
			fe.con = &Contract{Func: name, Props: icon.Props, Loops: map[int]*LoopContract{}}
		} else {
			cc := *fe.con
			for _, p := range icon.Props {
				if !contains(cc.Props, p) {
					cc.Props = append(append([]string{}, cc.Props...), p)
				}
			}
			fe.con = &cc
		}
		for k, v := range inames {
			f.params[k] = v.T
			f.ptypes[k] = v.Typ
		}
		rq := append([]*Clause{}, icon.Requires...)
		fe.con.Requires = append(rq, fe.con.Requires...)
		en := append([]*Clause{}, fe.con.Ensures...)
		for _, c := range icon.Ensures {
			cc := *c
			cc.Label = "iface." + c.Label
			en = append(en, &cc)
		}
		fe.con.Ensures = en
	}
	if fe.con != nil {
		fe.props = fe.con.Props
		for _, rq := range fe.con.Requires {
			t := fe.evalClause(f, rq, st, st, nil, nil, fn.Pos())
			fe.assume(tBool(true), t)
		}
		for _, d := range fe.con.Decreases {
			fe.entryMeasure = append(fe.entryMeasure, fe.define("measure", fe.evalClause(f, d, st, st, nil, nil, fn.Pos())))
		}
		for _, df := range fe.con.Defines {
			t := fe.evalClause(f, df, st, st, nil, nil, fn.Pos())
			fe.assume(tBool(true), t)
			fe.assumes["definition (conservative): "+df.Text] = true
		}
		f.entry = st.clone()
	}
	if fe.con != nil && len(fe.con.Requires) > 0 {
		fe.obls = append(fe.obls, &Obl{Name: name + "/cover:entry", Func: name, Kind: "cover", Label: "entry", Pos: len(fe.items), Goal: tBool(true),
			Clause: "vacuity guard: the preconditions are satisfiable", SrcPos: e.relPos(fn.Pos()), fe: fe, ExpectSat: true})
	}
	fe.execFrame(f, st, tBool(true))
	f.curBlock = nil
	// exit: every postcondition is checked at every exit point separately (small, path-specific queries).  A return block
	// that only joins paths (phis + return) is split into one exit point per incoming edge.
	if len(f.rets) > 0 && fe.con != nil && len(fe.con.Ensures) > 0 {
		f.exits = fe.exitPoints(f)
		for _, en := range fe.con.Ensures {
			if en.CaseType != nil {
				fe.caseClause(f, en)
				continue
			}
			for i, x := range f.exits {
				t := fe.evalClause(f, en, x.st, f.entry, nil, x.res, fn.Pos())
				label := en.Label
				if len(f.exits) > 1 {
					label = fmt.Sprintf("%s@%d", en.Label, i+1)
				}
				n0 := len(fe.obls)
				fe.emit("post", label, x.reach, t, en.Text, fn.Pos())
				if len(en.Props) > 0 {
					for _, o := range fe.obls[n0:] {
						o.Props = en.Props
					}
				}
			}
		}
	}
	// frame over package-level variables: everything the function can write (transitively) must be declared
	if fe.con != nil && fe.con.HasGlobals {
		var extra []string
		for c := range e.modsetOf(fn) {
			if strings.HasPrefix(c, "G_") && !strings.HasPrefix(c, "G_io_") && !strings.HasSuffix(c, "_init_guard") && !contains(fe.con.Globals, c) {
				extra = append(extra, c)
			}
		}
		sort.Strings(extra)
		goal := tBool(len(extra) == 0)
		o := &Obl{Name: name + "/frame.globals", Func: name, Kind: "frame.globals", Label: "globals", Pos: len(fe.items), Goal: goal,
			Clause: "package-level variables written (transitively): declared " + strings.Join(fe.con.Globals, " ") + "; undeclared: " + strings.Join(extra, " "), SrcPos: e.relPos(fn.Pos()), fe: fe}
		if len(extra) == 0 {
			o.Status, o.Solver = "unsat", "syntactic"
		} else {
			o.Status, o.Solver = "sat", "syntactic"
			o.Goal = tBool(false)
		}
		// no hidden mutable package state: later runs in the same process behave like the first (C13, C20)
		o.Props = append([]string{}, fe.props...)
		for _, pr := range []string{"C13", "C20"} {
			if !contains(o.Props, pr) {
				o.Props = append(o.Props, pr)
			}
		}
		fe.obls = append(fe.obls, o)
	}
	// package initializers establish the global invariants
	if fn.Name() == "init" && len(f.rets) > 0 {
		var ins []inEdge
		for _, r := range f.rets {
			ins = append(ins, inEdge{cond: r.reach, st: r.st})
		}
		reach, xst := fe.merge(ins, "initexit")
		pk := e.pkgShort(fn.Pkg)
		for _, gi := range e.globalinvs {
			if !strings.HasPrefix(gi.Comp, "G_"+sanitize(pk)+"_") {
				continue
			}
			var gtype types.Type
			for _, m := range fn.Pkg.Members {
				if g, ok := m.(*ssa.Global); ok && "G_"+sanitize(pk)+"_"+sanitize(g.Name()) == gi.Comp {
					gtype = g.Type().(*types.Pointer).Elem()
				}
			}
			if gtype == nil {
				continue
			}
			v := fe.comp(xst, gi.Comp, e.sorts.sortOf(gtype))
			// only the run that executes the initializer body establishes it
			guard := fe.comp(f.entry, "G_"+sanitize(pk)+"_init_guard", SBool)
			t := fe.evalCellInv(gi, v, gtype, xst)
			n0 := len(fe.obls)
			fe.emit("globalinv", strings.TrimPrefix(gi.Expr.Label, "globalinv."), tAnd(reach, tNot(guard)), t, gi.Expr.Text, fn.Pos())
			for _, o := range fe.obls[n0:] {
				o.Props = []string{"C09", "C08", "C18"}
			}
		}
	}
	// property tags
	for _, o := range fe.obls {
		if o.Props == nil {
			o.Props = append([]string{}, fe.props...)
		}
		if (strings.HasPrefix(o.Kind, "safety.") || o.Kind == "cover") && !contains(o.Props, "C07") {
			o.Props = append(o.Props, "C07")
		}
	}
	return fe, nil
}

func contains(xs []string, x string) bool {
	for _, y := range xs {
		if y == x {
			return true
		}
	}
	return false
}

func setup(repo string) (*Engine, error) {
	e, err := newEngine(repo)
	if err != nil {
		return nil, err
	}
	if err := e.load(); err != nil {
		return e, err
	}
	for k, s := range ioComps {
		e.compSorts[k] = s
	}
	e.compSorts["XS_strings_Builder"] = arrSort(SInt, SStr)
	e.compSorts["X_strings_Builder"] = arrSort(SInt, SInt)
	e.collectDynTypes()
	e.scanCtorOnly()
	e.registerAllComps()
	e.registerLogComps()
	for _, t := range e.dynTypes {
		e.sorts.tagOf(t)
	}
	specs, err := loadSpecTable(filepath.Join(verifDir, "spec"))
	if err != nil {
		return e, err
	}
	e.specs = specs
	if err := e.loadContracts(); err != nil {
		return e, err
	}
	if err := e.compileSpecDefs(); err != nil {
		return e, &EngineError{err.Error()}
	}
	for name := range e.contracts {
		if _, ok := e.funcs[name]; !ok {
			return e, &EngineError{fmt.Sprintf("contract for %s: no such function in the current tree", name)}
		}
	}
	return e, nil
}

func usage() {
	fmt.Fprintln(os.Stderr, "usage: bornovc check <property> <quick|thorough> | funcs | dump <func> | verify <func>... | replay <file>")
	os.Exit(2)
}

func main() {
	if len(os.Args) < 2 {
		usage()
	}
	repo := os.Getenv("VERIF_REPO")
	if repo == "" {
		repo = "/repo"
	}
	switch os.Args[1] {
	case "funcs":
		e, err := setup(repo)
		defer e.cleanup()
		if err != nil {
			fmt.Fprintln(os.Stderr, err)
			os.Exit(3)
		}
		ext := map[string]int{}
		for _, n := range e.funcNames() {
			fn := e.funcs[n]
			ci := analyzeCFG(fn)
			fmt.Printf("%-50s blocks=%d loops=%d contract=%v\n", n, len(fn.Blocks), len(ci.loops), e.contracts[n] != nil)
			for _, b := range fn.Blocks {
				for _, in := range b.Instrs {
					if c, ok := in.(ssa.CallInstruction); ok {
						if callee := c.Common().StaticCallee(); callee != nil && !e.isRepoFunc(callee) {
							ext[callee.String()]++
						}
					}
				}
			}
		}
		for _, k := range sortedKeys(e.compOwner) {
			fmt.Printf("comp %-50s owner=%s ctorOnly=%v\n", k, e.compOwner[k], !e.notCtorOnly[k])
		}
		for _, k := range sortedKeys(ext) {
			_, ok := stubs[k]
			fmt.Printf("external %-60s calls=%d stub=%v\n", k, ext[k], ok)
		}
	case "dump":
		e, err := setup(repo)
		defer e.cleanup()
		if err != nil {
			fmt.Fprintln(os.Stderr, err)
			os.Exit(3)
		}
		fe, err := e.encodeFunction(os.Args[2])
		if err != nil {
			fmt.Fprintln(os.Stderr, "ENGINE ERROR:", err)
		}
		for i, it := range fe.items {
			for _, o := range fe.obls {
				if o.Pos == i {
					fmt.Printf(";;;; OBLIGATION %s  [%s]\n;;;;   goal %s\n", o.Name, o.SrcPos, o.Goal.S)
				}
			}
			fmt.Println(it.Text)
		}
		for _, o := range fe.obls {
			if o.Pos == len(fe.items) {
				fmt.Printf(";;;; OBLIGATION %s  [%s]\n;;;;   goal %s\n", o.Name, o.SrcPos, o.Goal.S)
			}
		}
	case "smt":
		e, err := setup(repo)
		defer e.cleanup()
		if err != nil {
			fmt.Fprintln(os.Stderr, err)
			os.Exit(3)
		}
		fe, err := e.encodeFunction(os.Args[2])
		if err != nil {
			fmt.Fprintln(os.Stderr, "ENGINE ERROR:", err)
			os.Exit(3)
		}
		header := e.header()
		for _, o := range fe.obls {
			if strings.Contains(o.Name, os.Args[3]) {
				fmt.Print(o.script(header))
				return
			}
		}
		fmt.Fprintln(os.Stderr, "no such obligation")
	case "verify", "check":
		os.Exit(runCheckGuarded(repo, os.Args[1], os.Args[2:]))
	case "replay":
		os.Exit(runReplay(repo, os.Args[2:]))
	default:
		usage()
	}
}

type funcReport struct {
	Name string
	Err  error
	fe   *FuncEnc
}

// runCheckGuarded: the generator itself must not be the thing that dies.  A Go panic while loading or encoding the code
// (on the unchanged tree it never happens; on changed code it means the code has left the subset the generator handles,
// e.g. a generic function) leaves the property undecided, which is reported as a violation of the obligation
// "engine/generate" -- never as exit status 2 with a stack trace, and never as a pass.
func runCheckGuarded(repo, mode string, args []string) (rc int) {
	defer func() {
		r := recover()
		if r == nil {
			return
		}
		msg := fmt.Sprintf("%v", r)
		if ee, ok := r.(*EngineError); ok {
			msg = ee.msg
		}
		stack := string(debug.Stack())
		fmt.Printf("ENGINE-ERROR engine: %s\n", msg)
		if mode != "check" || len(args) < 1 {
			fmt.Fprintln(os.Stderr, stack)
			rc = 3
			return
		}
		prop := args[0]
		rf := &ReplayFile{Property: prop, Obligation: "engine/generate", Kind: "generate", Clause: "the obligations can be generated from the contracts and the current code",
			Status: "undecided", Solver: "bornovc", Output: truncate(msg+"\n"+stack, 6000),
			Note: "the generator could not process the current code; no failing input was confirmed against the real code (no-failing-input-found)"}
		out := filepath.Join(outDir(), "replays", prop)
		os.MkdirAll(out, 0o755)
		path := filepath.Join(out, "engine-generate.json")
		b, _ := json.MarshalIndent(rf, "", " ")
		os.WriteFile(path, b, 0o644)
		fmt.Printf("VIOLATION property=%s replay=%s no-failing-input-found\n", prop, path)
		fmt.Printf("  failed obligation: engine/generate status=undecided\n  reason: %s\n", msg)
		rc = 1
	}()
	return runCheck(repo, mode, args)
}

func runCheck(repo, mode string, args []string) int {
	start := time.Now()
	e, err := setup(repo)
	if e != nil {
		defer e.cleanup()
	}
	if err != nil {
		fmt.Fprintln(os.Stderr, "ENGINE ERROR:", err)
		return 3
	}
	prop := ""
	tier := "quick"
	var only map[string]bool
	if mode == "check" {
		if len(args) < 1 {
			usage()
		}
		prop = args[0]
		if len(args) > 1 {
			tier = args[1]
		}
	} else {
		only = map[string]bool{}
		for _, a := range args {
			if a == "-v" {
				e.verbose = true
				continue
			}
			only[a] = true
		}
	}
	if t := os.Getenv("VERIF_TIER"); t != "" && mode == "check" {
		tier = t
	}
	e.tier = tier
	// encode
	var encs []*FuncEnc
	var engineErrs []string
	for _, n := range e.funcNames() {
		if only != nil && len(only) > 0 && !only[n] {
			continue
		}
		fe, err := e.encodeFunction(n)
		if err != nil {
			engineErrs = append(engineErrs, fmt.Sprintf("%s: %v", n, err))
			continue
		}
		encs = append(encs, fe)
	}
	lemObls, lerr := e.lemmaObligations()
	if lerr != nil {
		engineErrs = append(engineErrs, lerr.Error())
	}
	header := e.header()
	// select
	var selected []*Obl
	closureFuncs := 0
	_ = closureFuncs
	var inSet map[string]bool // functions in the dependency closure of the property
	perFunc := map[*FuncEnc][]*Obl{}
	// a small helper without contract that every caller inlines is checked where it is inlined (with the caller's knowledge
	// of its arguments); checking it once more on its own, with no precondition, would only report what its callers exclude
	inlinedOnly := e.inlinedOnly(encs)
	for _, fe := range encs {
		if inlinedOnly[fe.name] {
			continue
		}
		for _, o := range fe.obls {
			if prop != "" && !contains(o.Props, prop) {
				continue
			}
			if o.Status == "unsat" && o.Solver == "syntactic" {
				selected = append(selected, o)
				continue
			}
			selected = append(selected, o)
			perFunc[fe] = append(perFunc[fe], o)
		}
	}
	for _, o := range lemObls {
		if prop != "" && !contains(o.Props, prop) {
			continue
		}
		selected = append(selected, o)
		perFunc[o.fe] = append(perFunc[o.fe], o)
	}
	// dependency closure: a property's proof rests on the contracts of every function its tagged obligations call by
	// contract (or inline, or havoc), transitively.  All obligations of those functions belong to the check, whatever
	// their own tags say: a change inside a callee is noticed only through the callee's own obligations.
	if prop != "" {
		byName := map[string]*FuncEnc{}
		for _, fe := range encs {
			byName[fe.name] = fe
		}
		inSet = map[string]bool{}
		var work []string
		frontEnd := map[string]bool{"C01": true, "C08": true, "C09": true, "C10": true}
		otherKnown := map[string]bool{}
		for _, k := range loadKnownFindings() {
			if k.State == "open" && k.Property != prop {
				otherKnown[k.Obligation] = true
			}
		}
		for _, o := range selected {
			if (strings.HasPrefix(o.Kind, "safety.") && prop != "C07") || o.Kind == "cover" || o.Kind == "lemma" {
				continue // (every function has safety obligations: only for C07, which is about them, are they roots. A safety
				// proof rests on the preconditions and invariants of its function, so C07's closure is nearly everything.)
			}
			if frontEnd[prop] && (strings.HasPrefix(o.Func, "interpreter.") || strings.HasPrefix(o.Func, "environment.")) {
				continue // tagged obligations there stay selected, but the closure does not start from them
			}
			if !inSet[o.Func] {
				inSet[o.Func] = true
				work = append(work, o.Func)
			}
		}
		// every property other than the front-end ones is a statement about programs given as source text: its proof rests
		// on the whole pipeline of main.run (scan, parse, interpret), so the front end belongs to its closure as well
		// (and on the process entry point, which configures the runtime before anything is read)
		for _, root := range []string{"main.run", "main.main"} {
			if !frontEnd[prop] && !inSet[root] { // (a root whose encoding failed has no entry in byName: its engine error still counts)
				inSet[root] = true
				work = append(work, root)
			}
		}
		for len(work) > 0 {
			n := work[len(work)-1]
			work = work[:len(work)-1]
			fe := byName[n]
			if fe == nil {
				continue
			}
			for d := range fe.deps {
				// the front-end properties stop where interpretation starts (they depend on it only through main.run's guard)
				if frontEnd[prop] && (strings.HasPrefix(d, "interpreter.") || strings.HasPrefix(d, "environment.")) {
					continue
				}
				if !inSet[d] {
					inSet[d] = true
					work = append(work, d)
				}
			}
		}
		have := map[*Obl]bool{}
		for _, o := range selected {
			have[o] = true
		}
		for _, fe := range encs {
			if !inSet[fe.name] || inlinedOnly[fe.name] {
				continue
			}
			for _, o := range fe.obls {
				if have[o] || otherKnown[o.Name] {
					continue // (an open known finding recorded under another property is that property's business)
				}
				have[o] = true
				selected = append(selected, o)
				if !(o.Status == "unsat" && o.Solver == "syntactic") {
					perFunc[fe] = append(perFunc[fe], o)
				}
			}
		}
		closureFuncs = len(inSet)
	}
	if prop != "" {
		// engine errors only matter for functions serving this property
		var rel []string
		for _, m := range engineErrs {
			fnName := m[:strings.Index(m, ":")]
			c := e.contracts[fnName]
			if prop == "C07" || (c != nil && c.serves(prop)) || inSet[fnName] || !strings.Contains(fnName, ".") {
				rel = append(rel, m)
			}
		}
		engineErrs = rel
	}
	dir := filepath.Join(e.scratch, "smt")
	os.MkdirAll(dir, 0o755)
	quickT, raceT, batchMs := 10, 60, 4000
	if tier == "thorough" {
		quickT, raceT, batchMs = 20, 240, 8000
	}
	fast := os.Getenv("VERIF_FAST") != ""
	if fast {
		quickT, raceT, batchMs = 3, 6, 2000
	}
	// pass 1: batch per function
	var jobs []func()
	for fe, obls := range perFunc {
		fe, obls := fe, obls
		sort.SliceStable(obls, func(i, j int) bool { return obls[i].Pos < obls[j].Pos })
		// vacuity guards go to their own processes with a short per-query budget ("not refutable" is all they need)
		var proofs, guards []*Obl
		for _, o := range obls {
			if o.ExpectSat {
				guards = append(guards, o)
			} else {
				proofs = append(proofs, o)
			}
		}
		for gi, group := range [][]*Obl{proofs, guards} {
			ms := batchMs
			if gi == 1 {
				ms = 300
			}
			for i := 0; i < len(group); i += 20 {
				j := i + 20
				if j > len(group) {
					j = len(group)
				}
				chunk := group[i:j]
				n := i + gi*100000
				jobs = append(jobs, func() { e.batchFunction(fe, chunk, header, dir, ms, n) })
			}
		}
	}
	parallel(16, jobs)
	// pass 2: individual portfolio for what is left
	for _, fe := range encs {
		fe.indexItems()
	}
	jobs = nil
	for _, o := range selected {
		o := o
		if o.ExpectSat {
			continue // vacuity guards are decided by the batch pass only (anything but `unsat` is fine)
		}
		if o.Status == "unsat" {
			continue
		}
		jobs = append(jobs, func() { e.solveOne(o, header, dir, quickT, raceT) })
	}
	parallel(8, jobs)
	// pass 3: solitary retry with a long timeout for undecided ones
	for _, o := range selected {
		if fast {
			break
		}
		if o.ExpectSat {
			continue
		}
		if o.Status == "timeout" || o.Status == "" || o.Status == "error" {
			e.solveOne(o, header, dir, quickT*2, raceT*3)
		}
	}
	// thorough: every discharged obligation is put to a solver of the other family as well (z3 <-> cvc5).  `unsat` twice
	// is agreement, unknown/timeout is inconclusive; `sat` from the second solver is re-examined by the first one alone and,
	// if the first one still says unsat, reported as a solver disagreement (engine error: the proof is not trusted).
	if tier == "thorough" {
		jobs = nil
		for _, o := range selected {
			o := o
			if o.ExpectSat || o.Status != "unsat" || o.Solver == "syntactic" {
				continue
			}
			jobs = append(jobs, func() { e.crossCheck(o, header, dir) })
		}
		parallel(16, jobs)
		for _, o := range selected {
			if o.Cross == "sat" {
				engineErrs = append(engineErrs, fmt.Sprintf("%s: solver disagreement: %s says unsat, the other family says sat", o.Name, o.Solver))
			}
		}
	}
	return e.report(prop, tier, selected, encs, engineErrs, header, dir, time.Since(start), mode == "verify")
}

// inlinedOnly: functions without contract, loop-free and small, that are only ever called statically from repo functions
// every one of which inlined them.
func (e *Engine) inlinedOnly(encs []*FuncEnc) map[string]bool {
	byName := map[string]*FuncEnc{}
	for _, fe := range encs {
		byName[fe.name] = fe
	}
	callers := map[*ssa.Function][]*ssa.Function{}
	valueUse := map[*ssa.Function]bool{}
	for _, fn := range e.funcs {
		for _, b := range fn.Blocks {
			for _, in := range b.Instrs {
				if call, ok := in.(ssa.CallInstruction); ok {
					if c := call.Common().StaticCallee(); c != nil && !call.Common().IsInvoke() {
						callers[c] = append(callers[c], fn)
					}
					for _, a := range call.Common().Args {
						if f, ok := a.(*ssa.Function); ok {
							valueUse[f] = true
						}
					}
					continue
				}
				if _, isDbg := in.(*ssa.DebugRef); isDbg {
					continue // the debug reference of the callee's name at a call site is not a use of the function as a value
				}
				for _, op := range in.Operands(nil) {
					if op != nil && *op != nil {
						if f, ok := (*op).(*ssa.Function); ok {
							valueUse[f] = true
						}
					}
				}
			}
		}
	}
	out := map[string]bool{}
	for name, fn := range e.funcs {
		if debugInlinedOnly && strings.Contains(name, os.Getenv("VERIF_DEBUG_INLINEDONLY")) {
			fmt.Fprintf(os.Stderr, "inlined-only? %s: contract=%v valueUse=%v callers=%d blocks=%d\n", name, e.contracts[name] != nil, valueUse[fn], len(callers[fn]), len(fn.Blocks))
		}
		if e.contracts[name] != nil || valueUse[fn] || len(callers[fn]) == 0 || len(fn.Blocks) == 0 || strings.HasPrefix(fn.Name(), "init") {
			continue
		}
		if fn.Signature.Recv() != nil && ast.IsExported(fn.Name()) {
			continue // may implement an interface method: called by dynamic dispatch as well
		}
		if len(analyzeCFG(fn).loops) > 0 || e.isRecursive(fn) {
			continue
		}
		n := 0
		for _, b := range fn.Blocks {
			n += len(b.Instrs)
		}
		if n > 80 {
			continue
		}
		ok := true
		for _, c := range callers[fn] {
			cfe := byName[e.fnames[c]]
			if debugInlinedOnly {
				fmt.Fprintf(os.Stderr, "inlined-only? %s: caller %s enc=%v inlined=%v\n", name, e.fnames[c], cfe != nil, cfe != nil && cfe.inlined[name])
			}
			if cfe == nil || !cfe.inlined[name] {
				// a caller that is itself only inlined is covered through its own callers
				if cfe != nil && e.contracts[e.fnames[c]] == nil && out[e.fnames[c]] {
					continue
				}
				ok = false
				break
			}
		}
		if ok {
			out[name] = true
		}
	}
	if debugInlinedOnly {
		var ns []string
		for n := range out {
			ns = append(ns, n)
		}
		sort.Strings(ns)
		fmt.Fprintln(os.Stderr, "inlined-only helpers:", ns)
	}
	return out
}

// ---------------------------------------------------------------------

type knownFinding struct {
	State      string
	Property   string
	Obligation string
	Rest       string
}

func loadKnownFindings() []knownFinding {
	b, err := os.ReadFile(filepath.Join(verifDir, "known_findings.txt"))
	if err != nil {
		return nil
	}
	var out []knownFinding
	for _, line := range strings.Split(string(b), "\n") {
		line = strings.TrimSpace(line)
		if line == "" || strings.HasPrefix(line, "#") {
			continue
		}
		kf := knownFinding{}
		if strings.HasPrefix(line, "open:") {
			kf.State = "open"
			line = strings.TrimSpace(line[5:])
		} else if strings.HasPrefix(line, "fixed:") {
			kf.State = "fixed"
			line = strings.TrimSpace(line[6:])
		} else {
			continue
		}
		for _, f := range strings.Fields(line) {
			if strings.HasPrefix(f, "property=") {
				kf.Property = f[9:]
			} else if strings.HasPrefix(f, "obligation=") {
				kf.Obligation = f[11:]
			}
		}
		kf.Rest = line
		out = append(out, kf)
	}
	return out
}

func (e *Engine) report(prop, tier string, obls []*Obl, encs []*FuncEnc, engineErrs []string, header, dir string, wall time.Duration, verbose bool) int {
	known := loadKnownFindings()
	isKnown := func(o *Obl) *knownFinding {
		for i := range known {
			k := &known[i]
			if k.State == "open" && k.Obligation == o.Name && (prop == "" || k.Property == prop) {
				return k
			}
		}
		return nil
	}
	sort.Slice(obls, func(i, j int) bool { return obls[i].Name < obls[j].Name })
	discharged, failed, knownN, covers := 0, 0, 0, 0
	var deadPaths []string
	byBackend := map[string]int{}
	cross := map[string]int{} // thorough: verdicts of the second solver family on discharged obligations
	solverTime := 0.0
	var samples []map[string]interface{}
	var knownList []string
	funcsUnder := map[string]bool{}
	trusted := map[string]bool{}
	assumes := map[string]bool{}
	inlined := map[string]bool{}
	violations := 0
	for _, o := range obls {
		funcsUnder[o.Func] = true
		solverTime += o.Time
		if o.ExpectSat {
			covers++
			if o.Status == "unsat" {
				switch {
				case strings.HasPrefix(o.Label, "after "):
					// contradiction introduced by a callee contract: the call was reachable, its continuation is not
					before := "before " + strings.TrimPrefix(o.Label, "after ")
					for _, b := range obls {
						if b.Func == o.Func && b.Kind == "cover" && b.Label == before && b.Status != "unsat" {
							engineErrs = append(engineErrs, fmt.Sprintf("%s: vacuous — the assumed contract of the callee contradicts the caller's state", o.Name))
						}
					}
				case o.Label == "entry":
					engineErrs = append(engineErrs, fmt.Sprintf("%s: vacuous — contradictory preconditions", o.Name))
				default:
					deadPaths = append(deadPaths, o.Name)
				}
			}
			continue
		}
		ok := o.Status == "unsat"
		if ok {
			discharged++
			byBackend[strings.TrimSuffix(o.Solver, "(batch)")]++
			if o.Cross != "" {
				cross[o.Cross]++
			}
			if len(samples) < 6 && o.Solver != "syntactic" && o.Kind != "safety.nil" {
				samples = append(samples, map[string]interface{}{"obligation": o.Name, "clause": o.Clause, "solver": o.Solver, "time_s": round3(o.Time), "at": o.SrcPos})
			}
			if verbose && e.verbose {
				fmt.Printf("ok    %-80s %s %.2fs\n", o.Name, o.Solver, o.Time)
			} else if o.Time > 8 {
				fmt.Printf("slow  %-80s %s %.1fs\n", o.Name, o.Solver, o.Time)
			}
			continue
		}
		if k := isKnown(o); k != nil {
			knownN++
			knownList = append(knownList, o.Name)
			fmt.Printf("KNOWN-FINDING: property=%s %s\n", pick(prop, k.Property), strings.TrimSpace(strings.Replace(k.Rest, "property="+k.Property, "", 1)))
			continue
		}
		failed++
		if prop != "" {
			path, confirmed := e.writeReplay(prop, o, header, dir)
			suffix := ""
			if !confirmed {
				suffix = " no-failing-input-found"
			}
			fmt.Printf("VIOLATION property=%s replay=%s%s\n", prop, path, suffix)
			fmt.Printf("  failed obligation: %s [%s] status=%s solver=%s\n  clause: %s\n", o.Name, o.SrcPos, o.Status, o.Solver, o.Clause)
			violations++
		} else {
			fmt.Printf("FAIL  %-80s %s (%s) [%s]\n      clause: %s\n", o.Name, o.Status, o.Solver, o.SrcPos, o.Clause)
			if o.Status == "sat" && e.verbose {
				fmt.Println(e.getModel(o, header, dir))
			}
		}
	}
	for _, fe := range encs {
		if !funcsUnder[fe.name] {
			continue
		}
		for k := range fe.trusted {
			trusted[k] = true
		}
		for k := range fe.assumes {
			assumes[k] = true
		}
		for k := range fe.inlined {
			inlined[k] = true
		}
	}
	for _, m := range engineErrs {
		fmt.Printf("ENGINE-ERROR %s\n", m)
		if prop != "" {
			// the contracts of a function serving this property no longer fit its code: every obligation of that function
			// that was discharged on the unchanged tree is now undischarged. Reported as a violation of the named
			// (ungeneratable) obligation group, never as a pass.
			o := &Obl{Name: strings.SplitN(m, ":", 2)[0] + "/generate", Func: strings.SplitN(m, ":", 2)[0], Kind: "generate", Clause: "the obligations of this function can be generated from its contracts and its current code",
				Status: "undecided", Solver: "bornovc", Output: m}
			path, _ := e.writeReplay(prop, o, header, dir)
			fmt.Printf("VIOLATION property=%s replay=%s no-failing-input-found\n", prop, path)
			fmt.Printf("  failed obligation: %s status=undecided\n  reason: %s\n", o.Name, m)
			violations++
		}
	}
	fmt.Printf("summary property=%s tier=%s obligations=%d discharged=%d known=%d failed=%d covers=%d engine_errors=%d wall=%.1fs solver=%.1fs\n",
		prop, tier, len(obls)-covers, discharged, knownN, failed, covers, len(engineErrs), wall.Seconds(), solverTime)
	if prop != "" {
		var under []string
		for f := range funcsUnder {
			c := e.contracts[f]
			if c != nil {
				under = append(under, f)
			}
		}
		sort.Strings(under)
		tb := []string{"go/ssa (golang.org/x/tools v0.29.0) translation of the Go source", "bornovc VC generator (this repository, cmd/bornovc)", "z3 5.1.0 (z3-new)", "z3 4.8.12", "cvc5 1.0.x", "amd64 semantics of float64->int64 conversion"}
		tb = append(tb, sortStrings(trusted)...)
		ev := map[string]interface{}{
			"property_id": prop, "tier": tier, "seed": seedFromEnv(), "level": "proof", "wall_s": round3(wall.Seconds()), "violations": violations,
			"coverage": map[string]interface{}{
				"obligations": len(obls) - knownN - covers, "discharged": discharged, "vacuity_guards_checked": covers, "unreachable_paths": deadPaths, "checker_cmd": "./check " + prop + " " + tier,
				"trusted_base": tb, "functions_under_contract": under, "functions_touched": len(funcsUnder),
				"inlined": sortStrings(inlined), "bounded": []string{}, "by_backend": byBackend, "second_solver_family": cross, "solver_time_s": round3(solverTime),
				"known_findings": knownList, "declared_unreachable_not_verified": e.unverified, "failed": failed, "engine_errors": engineErrs, "samples": samples,
				"not_decided": notDecided[prop],
			},
			"assumptions": append(sortStrings(assumes), globalAssumptions...),
		}
		os.MkdirAll(filepath.Join(outDir(), "evidence"), 0o755)
		b, _ := json.MarshalIndent(ev, "", " ")
		os.WriteFile(filepath.Join(outDir(), "evidence", prop+".json"), b, 0o644)
	}
	if len(engineErrs) > 0 {
		if prop != "" {
			return 1
		}
		return 3
	}
	if failed > 0 {
		return 1
	}
	if prop != "" && len(obls)-knownN-covers == 0 {
		fmt.Println("ENGINE-ERROR no obligations generated for this property (vacuous check)")
		return 3
	}
	return 0
}

func pick(a, b string) string {
	if a != "" {
		return a
	}
	return b
}

func round3(f float64) float64 { return float64(int(f*1000+0.5)) / 1000 }

func seedFromEnv() int {
	var s int
	fmt.Sscanf(os.Getenv("VERIF_SEED"), "%d", &s)
	return s
}

var globalAssumptions = []string{
	"Go `int` arithmetic is treated as mathematical (no overflow obligations); slice lengths and capacities are below 2^62",
	"strings are sequences of code points (uninterpreted sort with cplen/cp); invalid UTF-8 is outside the model",
	"stack and heap exhaustion are not modelled",
	"frames (modifies sets) are inferred syntactically from the SSA (stores, map updates, appends, callees) and are sound by construction",
}

var notDecided = map[string][]string{}

// ifaceContractFor: if fn implements a method of an interface under contract, returns that contract and the bindings of the
// interface method's parameter names (and `recv`) to fn's parameters.
func (e *Engine) ifaceContractFor(fn *ssa.Function) (*Contract, *types.Signature) {
	recv := fn.Signature.Recv()
	if recv == nil {
		return nil, nil
	}
	for key, con := range e.ifaceCons {
		i := strings.LastIndex(key, ".")
		ifaceName, method := key[:i], key[i+1:]
		if method != fn.Name() {
			continue
		}
		// find the interface type
		j := strings.Index(ifaceName, ".")
		var iface *types.Interface
		var msig *types.Signature
		for _, p := range e.pkgs {
			if p.Types.Name() == ifaceName[:j] && strings.HasPrefix(p.PkgPath, repoModule) {
				if obj := p.Types.Scope().Lookup(ifaceName[j+1:]); obj != nil {
					if it, ok := obj.Type().Underlying().(*types.Interface); ok {
						iface = it
						for k := 0; k < it.NumMethods(); k++ {
							if it.Method(k).Name() == method {
								msig = it.Method(k).Type().(*types.Signature)
							}
						}
					}
				}
			}
		}
		if iface == nil || msig == nil || !types.Implements(recv.Type(), iface) {
			continue
		}
		// an interface contract binds the implementations of its own package (ast.Expr is merely `String() string`)
		rt := recv.Type()
		if pt, ok := rt.(*types.Pointer); ok {
			rt = pt.Elem()
		}
		if nt, ok := rt.(*types.Named); !ok || nt.Obj().Pkg() == nil || nt.Obj().Pkg().Name() != ifaceName[:j] {
			continue
		}
		return con, msig
	}
	return nil, nil
}

// caseClause checks an `ensures case T: body` clause: body on the returns inside the type-switch case T, and the
// disjointness of every other return from that case.
func (fe *FuncEnc) caseClause(f *Frame, en *Clause) {
	fn := f.fn
	ctx := &specCtx{fe: fe, f: f}
	T := ctx.resolveType(en.CaseType)
	var caseBlock *ssa.BasicBlock
	var subject ssa.Value
	for _, b := range fn.Blocks {
		if len(b.Preds) != 1 {
			continue
		}
		p := b.Preds[0]
		if len(p.Instrs) == 0 || p.Succs[0] != b {
			continue
		}
		iff, ok := p.Instrs[len(p.Instrs)-1].(*ssa.If)
		if !ok {
			continue
		}
		ex, ok := iff.Cond.(*ssa.Extract)
		if !ok || ex.Index != 1 {
			continue
		}
		ta, ok := ex.Tuple.(*ssa.TypeAssert)
		if !ok || !ta.CommaOk || !types.Identical(ta.AssertedType, T) {
			continue
		}
		// the type switch of the rule is the one over a parameter; assertions on other values in the body do not count
		if caseBlock != nil {
			_, haveParam := subject.(*ssa.Parameter)
			_, isParam := ta.X.(*ssa.Parameter)
			if haveParam && !isParam {
				continue
			}
		}
		caseBlock = b
		subject = ta.X
	}
	if caseBlock == nil {
		engErr("%s: no type-switch case for %s", en.Line, T)
	}
	var in, out []inEdge
	var inRets []retInfo
	for _, r := range f.exits {
		if caseBlock == r.block || caseBlock.Dominates(r.block) {
			in = append(in, inEdge{cond: r.reach, st: r.st})
			inRets = append(inRets, r)
		} else {
			out = append(out, inEdge{cond: r.reach, st: r.st})
		}
	}
	if len(in) == 0 {
		engErr("%s: case %s has no return", en.Line, T)
	}
	// one obligation per return of the case: small, path-specific queries
	f.curBlock = nil
	for i, r := range inRets {
		t := fe.evalClause(f, en, r.st, f.entry, nil, r.res, fn.Pos())
		label := en.Label
		if len(inRets) > 1 {
			label = fmt.Sprintf("%s@%d", en.Label, i+1)
		}
		n0 := len(fe.obls)
		fe.emit("post", label, r.reach, t, en.Text, fn.Pos())
		if len(en.Props) > 0 {
			for _, o := range fe.obls[n0:] {
				o.Props = en.Props
			}
		}
	}
	// every other return is outside the case
	var conds []Term
	for _, e := range out {
		conds = append(conds, e.cond)
	}
	if len(conds) > 0 {
		fe.emit("post", en.Label+".elsewhere", tOr(conds...), tNot(fe.typeTest(fe.val(subject), T)), "returns outside the case are not "+types.TypeString(T, nil), fn.Pos())
		if len(en.Props) > 0 {
			fe.obls[len(fe.obls)-1].Props = en.Props
		}
	}
}

// exitPoints lists the exit points of the function: its returns, with pure join-and-return blocks split per incoming edge.
func (fe *FuncEnc) exitPoints(f *Frame) []retInfo {
	ci := analyzeCFG(f.fn)
	var out []retInfo
	for _, r := range f.rets {
		b := r.block
		trivial := len(b.Preds) > 1 && ci.loops[b] == nil
		var ret *ssa.Return
		for _, in := range b.Instrs {
			switch x := in.(type) {
			case *ssa.Phi, *ssa.DebugRef:
			case *ssa.Return:
				ret = x
			default:
				trivial = false
			}
		}
		if !trivial || ret == nil {
			out = append(out, r)
			continue
		}
		sig := f.fn.Signature.Results()
		for _, p := range b.Preds {
			cond, ok := f.edgeCond[[2]int{p.Index, b.Index}]
			if !ok {
				continue
			}
			var res []Term
			for i, v := range ret.Results {
				if phi, isPhi := v.(*ssa.Phi); isPhi && phi.Block() == b {
					res = append(res, fe.phiOperand(phi, b, p))
				} else {
					res = append(res, fe.valAs(v, sig.At(i).Type()))
				}
			}
			out = append(out, retInfo{block: p, reach: cond, st: f.out[p], res: res, pos: r.pos})
		}
	}
	return out
}

func init() {
	if os.Getenv("VERIF_DEBUG_INLINEDONLY") != "" {
		debugInlinedOnly = true
	}
}

var debugInlinedOnly bool
