package main

// Replay files and counterexample replay against the real code.

import (
	"crypto/sha256"
	"encoding/hex"
	"encoding/json"
	"fmt"
	"os"
	"path/filepath"
	"strings"
)

type ReplayFile struct {
	Property   string            `json:"property"`
	Obligation string            `json:"obligation"`
	Function   string            `json:"function"`
	Kind       string            `json:"kind"`
	Clause     string            `json:"clause"`
	Source     string            `json:"source"`
	Status     string            `json:"solver_status"`
	Solver     string            `json:"solver"`
	Output     string            `json:"solver_output"`
	Model      string            `json:"model,omitempty"`
	Inputs     []ModelInput      `json:"inputs,omitempty"`
	Replay     map[string]string `json:"replay,omitempty"`
	Confirmed  bool              `json:"confirmed_on_real_code"`
	Note       string            `json:"note"`
}

func (e *Engine) writeReplay(prop string, o *Obl, header, dir string) (string, bool) {
	rf := &ReplayFile{Property: prop, Obligation: o.Name, Function: o.Func, Kind: o.Kind, Clause: o.Clause, Source: o.SrcPos,
		Status: o.Status, Solver: o.Solver, Output: truncate(o.Output, 4000)}
	if o.fe != nil {
		rf.Inputs = o.fe.inputs
	}
	confirmed := false
	if o.fe != nil && o.fe.fn != nil {
		// model finding on the obligation without its quantified assumptions: a candidate input, to be confirmed by replay
		rf.Model = truncate(e.getModel(o, header, dir), 60000)
		if strings.HasPrefix(strings.TrimSpace(rf.Model), "sat") {
			confirmed = e.replayR1(o, rf)
		}
		rf.Model = truncate(rf.Model, 6000)
	}
	rf.Confirmed = confirmed
	if !confirmed {
		rf.Note = "the obligation was not discharged; no failing input was confirmed against the real code (no-failing-input-found)"
	}
	sum := sha256.Sum256([]byte(o.Name))
	out := filepath.Join(outDir(), "replays", prop)
	os.MkdirAll(out, 0o755)
	path := filepath.Join(out, hex.EncodeToString(sum[:6])+".json")
	b, _ := json.MarshalIndent(rf, "", " ")
	os.WriteFile(path, b, 0o644)
	return path, confirmed
}

func truncate(s string, n int) string {
	if len(s) > n {
		return s[:n] + "…"
	}
	return s
}

func runReplay(repo string, args []string) int {
	if len(args) < 1 {
		usage()
	}
	b, err := os.ReadFile(args[0])
	if err != nil {
		fmt.Fprintln(os.Stderr, err)
		return 2
	}
	var rf ReplayFile
	if err := json.Unmarshal(b, &rf); err != nil {
		fmt.Fprintln(os.Stderr, err)
		return 2
	}
	fmt.Printf("obligation: %s\nclause: %s\nsource: %s\nsolver: %s -> %s\nconfirmed: %v\n", rf.Obligation, rf.Clause, rf.Source, rf.Solver, rf.Status, rf.Confirmed)
	for k, v := range rf.Replay {
		fmt.Printf("--- %s\n%s\n", k, v)
	}
	return 0
}

// replayR1 is filled in by replay_r1.go
