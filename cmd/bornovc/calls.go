package main

// Calls: builtins, contracts, inlining, interface dispatch, external stubs, frame inference.

import (
	"os"
	"go/ast"
	"fmt"
	"go/token"
	"go/types"
	"strings"

	"golang.org/x/tools/go/ssa"
)

func (fe *FuncEnc) setResults(f *Frame, x *ssa.Call, res []Term) {
	sig := x.Call.Signature()
	n := sig.Results().Len()
	if n == 0 {
		return
	}
	if n == 1 {
		fe.setVal(x, res[0])
		return
	}
	var ts []Term
	for i, r := range res {
		ts = append(ts, fe.define(fmt.Sprintf("%s_%d", x.Name(), i), r))
	}
	f.tuples[x] = ts
}

func (fe *FuncEnc) doCall(f *Frame, x *ssa.Call, st *State, path Term) {
	c := x.Common()
	if b, ok := c.Value.(*ssa.Builtin); ok {
		fe.doBuiltin(f, x, b, st, path)
		return
	}
	sig := c.Signature()
	if c.IsInvoke() {
		fe.doInvoke(f, x, st, path)
		return
	}
	callee := c.StaticCallee()
	if callee == nil {
		engErr("%s: dynamic call %s", fe.name, x)
	}
	var args []Term
	params := sig.Params()
	off := 0
	if sig.Recv() != nil {
		args = append(args, fe.val(c.Args[0]))
		off = 1
	}
	for i := off; i < len(c.Args); i++ {
		args = append(args, fe.valAs(c.Args[i], params.At(i-off).Type()))
	}
	var pre *State
	exPre, mayExit := st.heap["G_io_Exited"]
	if mayExit && exPre.S != "false" && callee.String() != "os.Exit" {
		pre = st.clone()
	}
	res := fe.callStatic(f, callee, args, c.Args, st, path, x.Pos())
	if pre != nil {
		// nothing happens after the process has exited
		for k, v := range st.heap {
			old, ok := pre.heap[k]
			if !ok {
				old = fe.comp(pre, k, fe.eng.compSorts[k])
			}
			if old.S != v.S {
				st.heap[k] = fe.define(k, tIte(exPre, old, v))
			}
		}
	}
	f.curSt = st
	fe.setResults(f, x, res)
}

// callStatic performs a call to a known function.
func (fe *FuncEnc) callStatic(f *Frame, callee *ssa.Function, args []Term, argVals []ssa.Value, st *State, path Term, pos token.Pos) []Term {
	name, isRepo := fe.eng.fnames[callee]
	if !isRepo {
		return fe.callStub(f, callee, args, argVals, st, path, pos)
	}
	for _, av := range argVals {
		if isVarargsSlice(av) && fe.eng.sorts.sortOf(av.Type().Underlying().(*types.Slice).Elem()) == SVal {
			engErr("%s: a Go-level variadic interface list is passed to %s (not modelled)", fe.name, name)
		}
	}
	if f.mon != nil {
		if res, handled := fe.monCall(f, callee, name, args, st, path, pos); handled {
			return res
		}
	}
	con := fe.eng.contracts[name]
	if con != nil && con.Rejector {
		fe.rejectSite(f, name, st, path, pos)
	}
	if con != nil && !con.Inline {
		return fe.callByContract(f, callee, name, con, args, st, path, pos)
	}
	if fe.canInline(callee, con) {
		return fe.inline(f, callee, name, args, st, path, pos)
	}
	return fe.callHavoc(f, callee, name, args, st, path, pos)
}

// rejectSite: a call of a `rejector` (a function that refuses the input, e.g. the parser's error reporter).  The nearest
// enclosing function that has a contract must have stated the reason: at the call, one of its `rejects` conditions holds.
// This is the completeness half of "accepted iff derivable": a text is refused only for a reason the contract names.
func (fe *FuncEnc) rejectSite(f *Frame, callee string, st *State, path Term, pos token.Pos) {
	g := f
	var gc *Contract
	for g != nil {
		if g.fn != nil {
			if c := fe.eng.contracts[fe.eng.fnames[g.fn]]; c != nil {
				gc = c
				break
			}
		}
		g = g.parent
	}
	if g == nil || gc == nil || gc.Rejector {
		return
	}
	fe.rejectN++
	short := callee[strings.LastIndex(callee, ".")+1:]
	gname := fe.eng.fnames[g.fn]
	gshort := gname[strings.LastIndex(gname, ".")+1:]
	if len(gc.Rejects) == 0 {
		fe.emit("reject", fmt.Sprintf("%s.%s@%d:undeclared", gshort, short, fe.rejectN), path, tBool(false), "the function refuses its input but its contract states no reason (`rejects`)", pos)
		return
	}
	var ors []Term
	var texts []string
	// the named values of the enclosing function (to tell "not in scope at this site" from "renamed")
	declared := map[string]bool{}
	for _, b := range g.fn.Blocks {
		for _, in := range b.Instrs {
			switch x := in.(type) {
			case *ssa.Phi:
				declared[x.Comment] = true
			case *ssa.DebugRef:
				if id, ok := x.Expr.(*ast.Ident); ok {
					declared[id.Name] = true
				}
			case *ssa.Alloc:
				declared[x.Comment] = true
			}
		}
	}
	probe := &specCtx{fe: fe, f: g, cur: st, old: fe.entryFor(g), bound: map[string]TV{}}
	for _, cl := range gc.Rejects {
		cl.anyCand = true
		texts = append(texts, cl.Text)
		// a reason that speaks about a local which exists in the function but is not in scope at this site does not apply here
		outOfScope := false
		sels := map[*ast.Ident]bool{}
		ast.Inspect(cl.Expr, func(n ast.Node) bool {
			if se, ok := n.(*ast.SelectorExpr); ok {
				sels[se.Sel] = true // a field name, not a value
			}
			if id, ok := n.(*ast.Ident); ok && declared[id.Name] && !sels[id] {
				if _, found := probe.lookupByAnyName(id.Name); !found {
					outOfScope = true
					if os.Getenv("VERIF_DEBUG_REJECT") != "" {
						fmt.Fprintf(os.Stderr, "reject: %s: %q not in scope for %q\n", gname, id.Name, cl.Text)
					}
				}
			}
			return true
		})
		if outOfScope {
			continue
		}
		ors = append(ors, fe.evalClause(g, cl, st, fe.entryFor(g), nil, nil, pos))
	}
	fe.emit("reject", fmt.Sprintf("%s.%s@%d", gshort, short, fe.rejectN), path, tOr(ors...), "one of: "+strings.Join(texts, " | "), pos)
}

func (fe *FuncEnc) canInline(callee *ssa.Function, con *Contract) bool {
	if len(callee.Blocks) == 0 {
		return false
	}
	ci := analyzeCFG(callee)
	if len(ci.loops) > 0 {
		// a helper without contract whose loops can take over loop clauses of the top contract that have lost their loop
		if con != nil || fe.con == nil || fe.depth != 0 {
			return false
		}
		for _, c := range fe.eng.calleesOf(callee) {
			if c == callee {
				return false // directly recursive: would be inlined without end
			}
		}
		if fe.fn != nil {
			fe.loopOrd(fe.fn, fe.con, 1)
		}
		pending := 0
		for _, li := range ci.loops {
			if _, done := fe.borrowed[fmt.Sprintf("%s:%d", fe.eng.fnames[callee], li.ord)]; !done {
				pending++
			}
		}
		return pending <= len(fe.orphanLoops)
	}
	if fe.depth >= 6 {
		return false
	}
	if fe.eng.isRecursive(callee) {
		return false
	}
	if con != nil && con.Inline {
		return true
	}
	n := 0
	for _, b := range callee.Blocks {
		n += len(b.Instrs)
	}
	return n <= 80
}

func (fe *FuncEnc) bindParams(callee *ssa.Function, args []Term) (map[string]Term, map[string]types.Type) {
	m := map[string]Term{}
	tm := map[string]types.Type{}
	for i, p := range callee.Params {
		if i < len(args) {
			m[p.Name()] = args[i]
			tm[p.Name()] = p.Type()
		}
	}
	fe.eng.aliasRecv(callee, m, tm)
	return m, tm
}

// aliasRecv: the receiver name written in the contract header stays usable in the clauses when the code has renamed the
// receiver since.
func (e *Engine) aliasRecv(fn *ssa.Function, params map[string]Term, ptypes map[string]types.Type) {
	con := e.contracts[e.fnames[fn]]
	if con == nil || con.RecvName == "" || fn.Signature.Recv() == nil || len(fn.Params) == 0 {
		return
	}
	cur := fn.Params[0].Name()
	if cur == con.RecvName {
		return
	}
	if _, clash := params[con.RecvName]; clash {
		if ptypes != nil {
			if _, has := ptypes[con.RecvName]; !has {
				ptypes[con.RecvName] = fn.Params[0].Type()
			}
		}
		return
	}
	if t, ok := params[cur]; ok {
		params[con.RecvName] = t
		if ptypes != nil {
			ptypes[con.RecvName] = fn.Params[0].Type()
		}
	}
}

func (fe *FuncEnc) inline(f *Frame, callee *ssa.Function, name string, args []Term, st *State, path Term, pos token.Pos) []Term {
	fe.inlined[name] = true
	fe.dep(name)
	short := name[strings.LastIndex(name, ".")+1:]
	nf := fe.newFrame(callee, f, f.prefix+short+">")
	nf.labelCnt = f.labelCnt
	for i, p := range callee.Params {
		nf.vals[p] = args[i]
		nf.params[p.Name()] = args[i]
		nf.ptypes[p.Name()] = p.Type()
	}
	fe.eng.aliasRecv(callee, nf.params, nf.ptypes)
	if len(analyzeCFG(callee).loops) > 0 && fe.eng.contracts[name] == nil {
		top := f
		for top.parent != nil {
			top = top.parent
		}
		nf.borrow = top
		nf.mon = top.mon // its calls of eval / Callable.Call are events of the top invocation
	}
	nf.entry = st.clone()
	saved := fe.cur
	fe.cur = nf
	fe.depth++
	fe.execFrame(nf, st, path)
	fe.depth--
	fe.cur = saved
	// merge returns
	var ins []inEdge
	for _, r := range nf.rets {
		ins = append(ins, inEdge{cond: r.reach, st: r.st})
	}
	if len(ins) == 0 {
		engErr("%s: inlined %s never returns", fe.name, name)
	}
	_, mst := fe.merge(ins, "ret_"+short)
	// write merged state back into st
	for k := range st.heap {
		delete(st.heap, k)
	}
	for k, v := range mst.heap {
		st.heap[k] = v
	}
	nres := callee.Signature.Results().Len()
	var res []Term
	for i := 0; i < nres; i++ {
		var ts []Term
		for _, r := range nf.rets {
			ts = append(ts, r.res[i])
		}
		res = append(res, fe.define("r_"+short, iteChain(ins, ts)))
	}
	return res
}

// havocMods replaces every component of mods by a fresh symbol (allocation sets grow monotonically).
func (fe *FuncEnc) havocMods(st *State, mods map[string]bool, tag string) {
	fe.havocModsDirty(st, mods, nil, tag)
}

// havocModsDirty: as havocMods; dirty == nil means "no fresh-only information" (every slice/map component may be written anywhere).
func (fe *FuncEnc) havocModsDirty(st *State, mods map[string]bool, dirty map[string]bool, tag string) {
	preAlloc := map[string]Term{}
	if dirty != nil {
		for c := range mods {
			if as := freshFrameAlloc(c); as != "" && !dirty[c] {
				if _, done := preAlloc[as]; !done {
					if _, known := fe.eng.compSorts[as]; known {
						preAlloc[as] = fe.atom(fe.comp(st, as, arrSort(SInt, SBool)))
						st.heap[as] = preAlloc[as]
					}
				}
			}
		}
	}
	for c := range mods {
		if owner, ok := fe.eng.compOwner[c]; ok && !fe.eng.notCtorOnly[c] {
			if _, done := preAlloc[owner]; !done {
				preAlloc[owner] = fe.atom(fe.comp(st, owner, arrSort(SInt, SBool)))
				st.heap[owner] = preAlloc[owner]
			}
		}
	}
	// unescaped locals of the calling frame keep their rows (escape.go)
	keep := map[string][]Term{}
	if f := fe.cur; f != nil && f.fn != nil && f.curInstr != nil {
		for _, v := range fe.eng.unescapedAt(f.fn, f.curInstr) {
			t, ok := f.vals[v]
			if !ok {
				continue
			}
			switch vt := v.Type().Underlying().(type) {
			case *types.Slice:
				c := "E_" + fe.eng.sorts.elemKey(vt.Elem())
				keep[c] = append(keep[c], slRef(t))
			case *types.Map:
				k := fe.eng.mapKeyOf(vt)
				for _, pre := range []string{"MD_", "MV_", "MC_"} {
					keep[pre+k] = append(keep[pre+k], t)
				}
			}
		}
	}
	for _, c := range sortStrings(mods) {
		s, ok := fe.eng.compSorts[c]
		if !ok {
			continue
		}
		old := fe.comp(st, c, s)
		if strings.HasPrefix(c, "A_") {
			old = fe.atom(old)
		}
		nw := fe.fresh(c+"_"+tag, s)
		st.heap[c] = nw
		if refs := keep[c]; len(refs) > 0 {
			seen := map[string]bool{}
			for _, r := range refs {
				if seen[r.S] {
					continue
				}
				seen[r.S] = true
				fe.assume(tBool(true), tEq(tSelect(nw, r), tSelect(old, r)))
			}
			fe.assumes["a slice or map allocated by the current invocation, no reference to which has left its registers on any path to a call, keeps its contents across that call (syntactic escape analysis over go/ssa)"] = true
		}
		if owner, ok := fe.eng.compOwner[c]; ok && !fe.eng.notCtorOnly[c] {
			fe.ctorFrame(st, c, old, nw, preAlloc[owner])
			fe.assumes["fields only ever written through a pointer to an object allocated in the same invocation (struct literals) keep their value in pre-existing objects across calls and loops (checked syntactically over the whole program)"] = true
		}
		if as := freshFrameAlloc(c); as != "" && dirty != nil && !dirty[c] {
			if a, ok := preAlloc[as]; ok {
				fe.ctorFrame(st, c, old, nw, a)
				fe.assumes["slice and map components that a callee (with everything it can call) writes only through values it allocated itself keep their contents in pre-existing arrays and maps (syntactic fresh-only analysis)"] = true
			}
		}
		if strings.HasPrefix(c, "A_") {
			fe.assume(tBool(true), Term{fmt.Sprintf("(forall ((r Int)) (! (=> (select %s r) (select %s r)) :pattern ((select %s r))))", old.S, nw.S, old.S), SBool})
		}
		if strings.HasPrefix(c, "MC_") {
			fe.assume(tBool(true), Term{fmt.Sprintf("(forall ((r Int)) (! (>= (select %s r) 0) :pattern ((select %s r))))", nw.S, nw.S), SBool})
			fe.assume(tBool(true), Term{fmt.Sprintf("(= (select %s 0) 0)", nw.S), SBool})
		}
		if strings.HasPrefix(c, "MD_") {
			fe.assume(tBool(true), Term{fmt.Sprintf("(= (select %s 0) ((as const %s) false))", nw.S, arrayElemSort(s)), SBool})
		}
	}
}

func (fe *FuncEnc) freshResults(callee *ssa.Function, st *State, path Term, tag string) []Term {
	var res []Term
	rs := callee.Signature.Results()
	for i := 0; i < rs.Len(); i++ {
		r := fe.fresh("res_"+tag, fe.eng.sorts.sortOf(rs.At(i).Type()))
		fe.assume(path, fe.wf(r, rs.At(i).Type(), st))
		res = append(res, r)
	}
	return res
}

func (fe *FuncEnc) dep(name string) {
	if fe.deps == nil {
		fe.deps = map[string]bool{}
	}
	if name != "" && name != fe.name {
		fe.deps[name] = true
	}
}

func (fe *FuncEnc) callHavoc(f *Frame, callee *ssa.Function, name string, args []Term, st *State, path Term, pos token.Pos) []Term {
	short := name[strings.LastIndex(name, ".")+1:]
	fe.dep(name)
	fe.havocModsDirty(st, fe.eng.modsetOf(callee), fe.eng.dirtyOf(callee), short)
	return fe.freshResults(callee, st, path, short)
}

func (fe *FuncEnc) callByContract(f *Frame, callee *ssa.Function, name string, con *Contract, args []Term, st *State, path Term, pos token.Pos) []Term {
	short := name[strings.LastIndex(name, ".")+1:]
	fe.dep(name)
	bind, _ := fe.bindParams(callee, args)
	pre := st.clone()
	cf := &Frame{fn: callee, params: bind, ptypes: map[string]types.Type{}}
	for _, p := range callee.Params {
		cf.ptypes[p.Name()] = p.Type()
	}
	fe.eng.aliasRecv(callee, cf.params, cf.ptypes)
	for _, rq := range con.Requires {
		t := fe.evalClause(cf, rq, pre, pre, nil, nil, pos)
		fe.emit("pre", fe.srcLabel(pos, "call")+"."+rq.Label, path, t, name+" requires "+rq.Text, pos)
	}
	if f.parent == nil {
		fe.cover("before "+fe.srcLabel(pos, "call"), path, pos)
	}
	// termination of (mutual) recursion: the callee's measure is lexicographically below the caller's entry measure
	if f.parent == nil && fe.con != nil && len(fe.con.Decreases) > 0 && len(con.Decreases) > 0 && fe.eng.reaches(callee, fe.fn) {
		var m, M []Term
		for _, d := range con.Decreases {
			m = append(m, fe.evalClause(cf, d, pre, pre, nil, nil, pos))
		}
		M = fe.entryMeasure
		if len(M) == len(m) && len(m) > 0 {
			goal := tBool(false)
			for i := len(m) - 1; i >= 0; i-- {
				goal = tOr(tLt(m[i], M[i]), tAnd(tEq(m[i], M[i]), goal))
			}
			goal = tAnd(tLe(tInt(0), M[0]), goal)
			fe.emit("dec.call", fe.srcLabel(pos, "call"), path, goal, "recursion terminates: measure of "+name+" below the measure of "+fe.name, pos)
		}
	}
	// re-entry through a callee that declares no measure of its own (the evaluator): the caller's measure must have gone
	// down by the time of the call — otherwise nothing bounds the nesting depth of this cycle (Go stack exhaustion)
	if f.parent == nil && fe.con != nil && len(fe.con.Decreases) > 0 && len(con.Decreases) == 0 && fe.eng.reaches(callee, fe.fn) {
		var m []Term
		for _, d := range fe.con.Decreases {
			m = append(m, fe.evalClause(f, d, pre, f.entry, nil, nil, pos))
		}
		M := fe.entryMeasure
		if len(M) == len(m) && len(m) > 0 {
			goal := tBool(false)
			for i := len(m) - 1; i >= 0; i-- {
				goal = tOr(tLt(m[i], M[i]), tAnd(tEq(m[i], M[i]), goal))
			}
			goal = tAnd(tLe(tInt(0), M[0]), goal)
			n0 := len(fe.obls)
			fe.checkOnly = true
			defer func() { fe.checkOnly = false }()
			fe.emit("dec.call", short+".reentry", path, goal, "the nesting depth of "+fe.name+" through "+name+" is bounded: the declared measure has decreased when "+name+" is entered", pos)
			for _, o := range fe.obls[n0:] {
				o.Props = []string{"C07"} // "never dies with a fatal error, whatever nesting of calls the program uses"
			}
		}
	}
	fe.havocModsDirty(st, fe.eng.modsetOf(callee), fe.eng.dirtyOf(callee), short)
	res := fe.freshResults(callee, st, path, short)
	defer func() {
		if f.parent == nil {
			fe.cover("after "+fe.srcLabel(pos, "call"), path, pos)
		}
	}()
	for _, en := range con.Ensures {
		if en.CaseType != nil {
			continue // rules over the callee's private event log are not visible to callers
		}
		t := fe.evalClause(cf, en, st, pre, nil, res, pos)
		fe.assume(path, t)
	}
	for _, en := range con.Assumes {
		t := fe.evalClause(cf, en, st, pre, nil, res, pos)
		fe.assume(path, t)
		fe.assumes["trusted postcondition of "+name+" ["+en.Label+"]: "+en.Text] = true
	}
	return res
}

// ---------------------------------------------------------------------
// builtins

func (fe *FuncEnc) doBuiltin(f *Frame, x *ssa.Call, b *ssa.Builtin, st *State, path Term) {
	c := x.Common()
	so := fe.eng.sorts
	switch b.Name() {
	case "len":
		a := fe.val(c.Args[0])
		switch t := c.Args[0].Type().Underlying().(type) {
		case *types.Slice:
			fe.setVal(x, slLen(a))
		case *types.Map:
			mc := fe.comp(st, "MC_"+fe.mapKey(t), arrSort(SInt, SInt))
			fe.setVal(x, tSelect(mc, a))
		case *types.Basic:
			fe.setVal(x, Term{"(str.blen " + a.S + ")", SInt})
		default:
			engErr("len of %s", c.Args[0].Type())
		}
	case "cap":
		fe.setVal(x, slCap(fe.val(c.Args[0])))
	case "delete":
		mt := c.Args[0].Type().Underlying().(*types.Map)
		fe.globalMapWrite(f, c.Args[0], path, x.Pos())
		fe.mapDelete(st, mt, fe.val(c.Args[0]), fe.val(c.Args[1]))
	case "append":
		fe.doAppend(f, x, st, path)
	case "copy":
		dst, src := fe.val(c.Args[0]), fe.val(c.Args[1])
		es := so.sortOf(c.Args[0].Type().Underlying().(*types.Slice).Elem())
		comp := "E_" + so.elemKey(c.Args[0].Type().Underlying().(*types.Slice).Elem())
		e := fe.comp(st, comp, arrSort(SInt, arrSort(SInt, es)))
		n := fe.define("ncopy", tIte(tLt(slLen(dst), slLen(src)), slLen(dst), slLen(src)))
		row := fe.fresh("copied", arrSort(SInt, es))
		fe.assume(tBool(true), Term{fmt.Sprintf("(forall ((j Int)) (! (= (select %s j) (ite (and (<= (s.off %s) j) (< j (+ (s.off %s) %s))) (select (select %s (s.ref %s)) (+ (s.off %s) (- j (s.off %s)))) (select (select %s (s.ref %s)) j))) :pattern ((select %s j))))",
			row.S, dst.S, dst.S, n.S, e.S, src.S, src.S, dst.S, e.S, dst.S, row.S), SBool})
		fe.setComp(st, comp, tStore(e, slRef(dst), row))
		fe.setVal(x, n)
	default:
		engErr("%s: builtin %s", fe.name, b.Name())
	}
}

// constLenVarargs: if v is `slice (new [N]T)[:]`, returns the array alloc and N.
func constLenVarargs(v ssa.Value) (int64, bool) {
	sl, ok := v.(*ssa.Slice)
	if !ok || sl.Low != nil || sl.High != nil {
		return 0, false
	}
	al, ok := sl.X.(*ssa.Alloc)
	if !ok {
		return 0, false
	}
	arr, ok := al.Type().Underlying().(*types.Pointer).Elem().Underlying().(*types.Array)
	if !ok {
		return 0, false
	}
	return arr.Len(), true
}

func (fe *FuncEnc) doAppend(f *Frame, x *ssa.Call, st *State, path Term) {
	c := x.Common()
	so := fe.eng.sorts
	a := fe.val(c.Args[0])
	elemT := x.Type().Underlying().(*types.Slice).Elem()
	es := so.sortOf(elemT)
	comp := "E_" + so.elemKey(elemT)
	var b Term
	if bt, ok := c.Args[1].Type().Underlying().(*types.Basic); ok && bt.Info()&types.IsString != 0 {
		engErr("append(bytes, string...)")
	}
	b = fe.valAs(c.Args[1], x.Type())
	e := fe.comp(st, comp, arrSort(SInt, arrSort(SInt, es)))
	esrc := e
	if so.elemKey(elemT) == "Val" && isVarargsSlice(c.Args[1]) {
		esrc = fe.comp(st, "EV_Val", arrSort(SInt, arrSort(SInt, es)))
	}
	n := fe.define("n", tAdd(slLen(a), slLen(b)))
	inplace := fe.define("inplace", tLe(n, slCap(a)))
	// contents of the appended run
	src := func(k Term) Term { return tSelect(tSelect(esrc, slRef(b)), tAdd(slOff(b), k)) }
	// in-place row
	var rowIn Term
	oldRow := tSelect(e, slRef(a))
	base := fe.define("base", tAdd(slOff(a), slLen(a)))
	if N, ok := constLenVarargs(c.Args[1]); ok && N <= 8 {
		rowIn = oldRow
		for k := int64(0); k < N; k++ {
			rowIn = tStore(rowIn, tAdd(base, tInt(k)), src(tInt(k)))
		}
		rowIn = fe.define("rowIn", rowIn)
	} else {
		rowIn = fe.fresh("rowIn", arrSort(SInt, es))
		fe.assume(tBool(true), Term{fmt.Sprintf("(forall ((j Int)) (! (= (select %s j) (ite (and (<= %s j) (< j (+ %s (s.len %s)))) (select (select %s (s.ref %s)) (+ (s.off %s) (- j %s))) (select %s j))) :pattern ((select %s j))))",
			rowIn.S, base.S, base.S, b.S, esrc.S, b.S, b.S, base.S, oldRow.S, rowIn.S), SBool})
	}
	// fresh row
	aset := "A_E_" + so.elemKey(elemT)
	al := fe.comp(st, aset, arrSort(SInt, SBool))
	nref := fe.fresh("newarr", SInt)
	ncap := fe.fresh("newcap", SInt)
	fe.assume(tBool(true), tAnd(tLt(tInt(0), nref), tNot(tSelect(al, nref)), tLe(n, ncap), tLt(ncap, Term{"4611686018427387904", SInt})))
	rowNew := fe.fresh("rowNew", arrSort(SInt, es))
	fe.assume(tBool(true), Term{fmt.Sprintf("(forall ((j Int)) (! (=> (and (<= 0 j) (< j %s)) (= (select %s j) (ite (< j (s.len %s)) (select %s (+ (s.off %s) j)) (select (select %s (s.ref %s)) (+ (s.off %s) (- j (s.len %s))))))) :pattern ((select %s j))))",
		n.S, rowNew.S, a.S, oldRow.S, a.S, esrc.S, b.S, b.S, a.S, rowNew.S), SBool})
	constN := int64(-1)
	if N, ok := constLenVarargs(c.Args[1]); ok && N <= 8 {
		constN = N
	}
	fe.appendCellCheck(f, elemT, b, esrc, constN, st, path, x.Pos())
	fe.setComp(st, comp, tIte(inplace, tStore(e, slRef(a), rowIn), tStore(e, nref, rowNew)))
	fe.setComp(st, aset, tIte(inplace, al, tStore(al, nref, tBool(true))))
	fe.setVal(x, tIte(inplace, mkSlice(slRef(a), slOff(a), n, slCap(a)), mkSlice(nref, tInt(0), n, ncap)))
	fe.assumes["append: in place when len+n <= cap (writes the shared backing array), otherwise a fresh backing array of unspecified capacity >= len+n"] = true
}

// ---------------------------------------------------------------------
// interface method calls

func (fe *FuncEnc) implementations(iface *types.Interface, method string) []*ssa.Function {
	var out []*ssa.Function
	for _, dt := range fe.eng.dynTypes {
		if !types.Implements(dt, iface) {
			continue
		}
		ms := fe.eng.prog.MethodSets.MethodSet(dt)
		for i := 0; i < ms.Len(); i++ {
			if ms.At(i).Obj().Name() == method {
				if m := fe.eng.prog.MethodValue(ms.At(i)); m != nil {
					out = append(out, m)
				}
			}
		}
	}
	return out
}

func (fe *FuncEnc) doInvoke(f *Frame, x *ssa.Call, st *State, path Term) {
	c := x.Common()
	recv := fe.val(c.Value)
	method := c.Method.Name()
	iface := c.Value.Type().Underlying().(*types.Interface)
	fe.emit("safety.nil", fe.srcLabel(x.Pos(), "call"), path, tNot(tEq(recv, Term{"VNil", SVal})), "method call on nil interface", x.Pos())
	sig := c.Signature()
	var args []Term
	for i, a := range c.Args {
		args = append(args, fe.valAs(a, sig.Params().At(i).Type()))
	}
	// error.Error(), Stringer etc. on values of unknown dynamic type
	if isErrorIface(iface) && method == "Error" {
		r := fe.fresh("errtext", SStr)
		fe.setVal(x, r)
		return
	}
	ifaceName := ""
	if n, ok := c.Value.Type().(*types.Named); ok {
		ifaceName = fe.eng.sorts.shortTypeName(n)
	}
	if f.mon != nil {
		if res, handled := fe.monInvoke(f, ifaceName, method, recv, args, st, path, x.Pos()); handled {
			fe.setResults(f, x, res)
			return
		}
	}
	impls := fe.implementations(iface, method)
	for _, m := range impls {
		fe.dep(fe.eng.fnames[m])
	}
	if icon := fe.eng.ifaceCons[ifaceName+"."+method]; icon != nil {
		// interface-level contract
		var res []Term
		if ifaceName == "interpreter.Callable" && method == "Call" {
			res = fe.invokeLogged(f, recv, args, st, path, x.Pos(), func() []Term {
				return fe.callIfaceContract(f, icon, ifaceName, method, impls, recv, args, sig, st, path, x.Pos())
			})
		} else {
			res = fe.callIfaceContract(f, icon, ifaceName, method, impls, recv, args, sig, st, path, x.Pos())
		}
		fe.setResults(f, x, res)
		return
	}
	// dispatch: pure loop-free implementations are inlined; otherwise havoc union of modsets
	allInline := len(impls) > 0
	for _, m := range impls {
		if !fe.canInline(m, nil) || !fe.eng.isPure(m) {
			allInline = false
		}
	}
	if allInline {
		nres := sig.Results().Len()
		var conds []Term
		var results [][]Term
		for _, m := range impls {
			rt := m.Signature.Recv().Type()
			test := fe.typeTest(recv, rt)
			rv := fe.fromVal(recv, rt)
			s2 := st.clone()
			res := fe.inline(f, m, fe.eng.fnames[m], append([]Term{rv}, args...), s2, tAnd(path, test), x.Pos())
			conds = append(conds, test)
			results = append(results, res)
		}
		var out []Term
		for i := 0; i < nres; i++ {
			r := fe.fresh("dyn_"+method, fe.eng.sorts.sortOf(sig.Results().At(i).Type()))
			for j := range impls {
				fe.assume(tAnd(path, conds[j]), tEq(r, results[j][i]))
			}
			out = append(out, r)
		}
		fe.setResults(f, x, out)
		return
	}
	mods := map[string]bool{}
	for _, m := range impls {
		for c := range fe.eng.modsetOf(m) {
			mods[c] = true
		}
	}
	fe.havocMods(st, mods, method)
	var out []Term
	for i := 0; i < sig.Results().Len(); i++ {
		r := fe.fresh("dyn_"+method, fe.eng.sorts.sortOf(sig.Results().At(i).Type()))
		fe.assume(path, fe.wf(r, sig.Results().At(i).Type(), st))
		out = append(out, r)
	}
	fe.setResults(f, x, out)
}

func (fe *FuncEnc) callIfaceContract(f *Frame, con *Contract, ifaceName, method string, impls []*ssa.Function, recv Term, args []Term, sig *types.Signature, st *State, path Term, pos token.Pos) []Term {
	bind := map[string]Term{"recv": recv}
	ptypes := map[string]types.Type{}
	for i := 0; i < sig.Params().Len(); i++ {
		n := sig.Params().At(i).Name()
		if n == "" || n == "_" {
			n = fmt.Sprintf("arg%d", i)
		}
		bind[n] = args[i]
		ptypes[n] = sig.Params().At(i).Type()
	}
	cf := &Frame{params: bind, ptypes: ptypes}
	pre := st.clone()
	for _, rq := range con.Requires {
		t := fe.evalClause(cf, rq, pre, pre, nil, nil, pos)
		fe.emit("pre", fe.srcLabel(pos, "call")+"."+rq.Label, path, t, ifaceName+"."+method+" requires "+rq.Text, pos)
	}
	mods := map[string]bool{}
	dirty := map[string]bool{}
	for _, m := range impls {
		for c := range fe.eng.modsetOf(m) {
			mods[c] = true
		}
		for c := range fe.eng.dirtyOf(m) {
			dirty[c] = true
		}
	}
	fe.havocModsDirty(st, mods, dirty, method)
	var res []Term
	for i := 0; i < sig.Results().Len(); i++ {
		r := fe.fresh("dyn_"+method, fe.eng.sorts.sortOf(sig.Results().At(i).Type()))
		fe.assume(path, fe.wf(r, sig.Results().At(i).Type(), st))
		res = append(res, r)
	}
	for _, en := range con.Ensures {
		t := fe.evalClause(cf, en, st, pre, nil, res, pos)
		fe.assume(path, t)
	}
	return res
}

// ---------------------------------------------------------------------
// frame inference (syntactic, transitive)

func (e *Engine) isRecursive(fn *ssa.Function) bool {
	seen := map[*ssa.Function]bool{}
	var visit func(g *ssa.Function) bool
	visit = func(g *ssa.Function) bool {
		for _, callee := range e.calleesOf(g) {
			if callee == fn {
				return true
			}
			if seen[callee] {
				continue
			}
			seen[callee] = true
			if visit(callee) {
				return true
			}
		}
		return false
	}
	return visit(fn)
}

var calleeCache = map[*ssa.Function][]*ssa.Function{}

func (e *Engine) calleesOf(fn *ssa.Function) []*ssa.Function {
	if c, ok := calleeCache[fn]; ok {
		return c
	}
	var out []*ssa.Function
	seen := map[*ssa.Function]bool{}
	for _, b := range fn.Blocks {
		for _, in := range b.Instrs {
			call, ok := in.(ssa.CallInstruction)
			if !ok {
				continue
			}
			c := call.Common()
			if c.IsInvoke() {
				iface := c.Value.Type().Underlying().(*types.Interface)
				for _, dt := range e.dynTypes {
					if !types.Implements(dt, iface) {
						continue
					}
					ms := e.prog.MethodSets.MethodSet(dt)
					for i := 0; i < ms.Len(); i++ {
						if ms.At(i).Obj().Name() == c.Method.Name() {
							if m := e.prog.MethodValue(ms.At(i)); m != nil && e.isRepoFunc(m) && !seen[m] {
								seen[m] = true
								out = append(out, m)
							}
						}
					}
				}
				continue
			}
			if callee := c.StaticCallee(); callee != nil && e.isRepoFunc(callee) && !seen[callee] {
				seen[callee] = true
				out = append(out, callee)
			}
		}
	}
	calleeCache[fn] = out
	return out
}

// isPure: writes nothing (transitively) except allocation sets.
func (e *Engine) isPure(fn *ssa.Function) bool {
	for c := range e.modsetOf(fn) {
		if !strings.HasPrefix(c, "A_") {
			return false
		}
	}
	return true
}

func (e *Engine) modsetOf(fn *ssa.Function) map[string]bool {
	if m, ok := e.modsets[fn]; ok {
		return m
	}
	// fixpoint over the call graph reachable from fn
	var funcs []*ssa.Function
	seen := map[*ssa.Function]bool{fn: true}
	stack := []*ssa.Function{fn}
	for len(stack) > 0 {
		g := stack[len(stack)-1]
		stack = stack[:len(stack)-1]
		funcs = append(funcs, g)
		for _, c := range e.calleesOf(g) {
			if !seen[c] {
				seen[c] = true
				stack = append(stack, c)
			}
		}
	}
	direct := map[*ssa.Function]map[string]bool{}
	for _, g := range funcs {
		d := map[string]bool{}
		for _, b := range g.Blocks {
			e.blockWrites(g, b, d)
		}
		direct[g] = d
	}
	total := map[*ssa.Function]map[string]bool{}
	for _, g := range funcs {
		t := map[string]bool{}
		for c := range direct[g] {
			t[c] = true
		}
		total[g] = t
	}
	for changed := true; changed; {
		changed = false
		for _, g := range funcs {
			for _, c := range e.calleesOf(g) {
				for comp := range total[c] {
					if !total[g][comp] {
						total[g][comp] = true
						changed = true
					}
				}
			}
		}
	}
	for _, g := range funcs {
		if _, ok := e.modsets[g]; !ok || g == fn {
			e.modsets[g] = total[g]
		}
	}
	return e.modsets[fn]
}

// loopModset: components written in the loop body (callees included).
func (e *Engine) loopModset(fn *ssa.Function, li *loopInfo) map[string]bool {
	d := map[string]bool{}
	for b := range li.blocks {
		for _, in := range b.Instrs {
			if isLoggedCall(e, in) {
				for _, lc := range logComps(e) {
					d[lc.name] = true
				}
			}
		}
	}
	for b := range li.blocks {
		e.blockWrites(fn, b, d)
		for _, in := range b.Instrs {
			call, ok := in.(ssa.CallInstruction)
			if !ok {
				continue
			}
			c := call.Common()
			if c.IsInvoke() {
				iface := c.Value.Type().Underlying().(*types.Interface)
				for _, dt := range e.dynTypes {
					if !types.Implements(dt, iface) {
						continue
					}
					ms := e.prog.MethodSets.MethodSet(dt)
					for i := 0; i < ms.Len(); i++ {
						if ms.At(i).Obj().Name() == c.Method.Name() {
							if m := e.prog.MethodValue(ms.At(i)); m != nil && e.isRepoFunc(m) {
								for comp := range e.modsetOf(m) {
									d[comp] = true
								}
							}
						}
					}
				}
			} else if callee := c.StaticCallee(); callee != nil && e.isRepoFunc(callee) {
				for comp := range e.modsetOf(callee) {
					d[comp] = true
				}
			}
		}
	}
	return d
}

func (e *Engine) pkgShort(p *ssa.Package) string {
	if p == nil {
		return "x"
	}
	if p.Pkg.Path() == repoModule {
		return "main"
	}
	return shortPkg(p.Pkg.Path())
}

// storeComps: components a store through pointer value v may write.
func (e *Engine) storeComps(v ssa.Value, d map[string]bool) {
	so := e.sorts
	switch x := v.(type) {
	case *ssa.Global:
		d["G_"+sanitize(e.pkgShort(x.Pkg))+"_"+sanitize(x.Name())] = true
		return
	case *ssa.FieldAddr:
		pt := x.X.Type().Underlying().(*types.Pointer)
		// nested field of a by-value struct: root decides
		switch x.X.(type) {
		case *ssa.FieldAddr, *ssa.IndexAddr:
			e.storeComps(x.X, d)
			return
		case *ssa.Alloc:
			if n, ok := pt.Elem().(*types.Named); ok && so.isRepoType(n) {
				if stt, ok := n.Underlying().(*types.Struct); ok {
					d[fieldComp(so, n, stt, x.Field)] = true
					return
				}
			}
			e.storeComps(x.X, d)
			return
		}
		if n, ok := pt.Elem().(*types.Named); ok {
			if stt, ok := n.Underlying().(*types.Struct); ok && so.isRepoType(n) {
				d[fieldComp(so, n, stt, x.Field)] = true
				return
			}
		}
	case *ssa.IndexAddr:
		switch t := x.X.Type().Underlying().(type) {
		case *types.Slice:
			d["E_"+so.elemKey(t.Elem())] = true
		case *types.Pointer:
			d[e.arrayComp(x.X, t.Elem().Underlying().(*types.Array).Elem())] = true
		}
		return
	}
	// plain pointer
	pt, ok := v.Type().Underlying().(*types.Pointer)
	if !ok {
		return
	}
	if n, ok := pt.Elem().(*types.Named); ok {
		if stt, ok := n.Underlying().(*types.Struct); ok {
			if so.isRepoType(n) {
				for i := 0; i < stt.NumFields(); i++ {
					d[fieldComp(so, n, stt, i)] = true
				}
			} else {
				d["X_"+sanitize(so.shortTypeName(n))] = true
			}
			return
		}
	}
	if arr, ok := pt.Elem().Underlying().(*types.Array); ok {
		d["E_"+so.elemKey(arr.Elem())] = true
		return
	}
	d["C_"+sortKey(so.sortOf(pt.Elem()))] = true
}

func (e *Engine) mapKeyOf(m *types.Map) string {
	return sortKey(e.sorts.sortOf(m.Key())) + "_" + mapElemKey(e.sorts, m.Elem())
}

func mapElemKey(so *Sorts, t types.Type) string {
	if n, ok := t.(*types.Named); ok {
		if _, isIface := n.Underlying().(*types.Interface); isIface {
			return sanitize(so.shortTypeName(n))
		}
	}
	return sortKey(so.sortOf(t))
}

// blockWrites: components written directly by instructions of b (not through calls to repo functions).
func (e *Engine) blockWrites(fn *ssa.Function, b *ssa.BasicBlock, d map[string]bool) {
	so := e.sorts
	for _, in := range b.Instrs {
		switch x := in.(type) {
		case *ssa.Store:
			e.storeComps(x.Addr, d)
		case *ssa.MapUpdate:
			k := e.mapKeyOf(x.Map.Type().Underlying().(*types.Map))
			d["MD_"+k], d["MV_"+k], d["MC_"+k] = true, true, true
		case *ssa.Alloc:
			elem := x.Type().Underlying().(*types.Pointer).Elem()
			if arr, ok := elem.Underlying().(*types.Array); ok {
				d["A_E_"+so.elemKey(arr.Elem())] = true
				d[e.arrayComp(x, arr.Elem())] = true
			} else if n, ok := elem.(*types.Named); ok && so.isRepoType(n) {
				if stt, ok := n.Underlying().(*types.Struct); ok {
					d["A_H_"+sanitize(so.shortTypeName(n))] = true
					for i := 0; i < stt.NumFields(); i++ {
						d[fieldComp(so, n, stt, i)] = true
					}
				} else {
					d["A_C_"+sortKey(so.sortOf(elem))] = true
					d["C_"+sortKey(so.sortOf(elem))] = true
				}
			} else if n, ok := elem.(*types.Named); ok {
				d["A_X_"+sanitize(so.shortTypeName(n))] = true
				d["X_"+sanitize(so.shortTypeName(n))] = true
				if so.shortTypeName(n) == "strings.Builder" {
					d["XS_strings_Builder"] = true
				}
			} else {
				d["A_C_"+sortKey(so.sortOf(elem))] = true
				d["C_"+sortKey(so.sortOf(elem))] = true
			}
		case *ssa.MakeSlice:
			es := so.elemKey(x.Type().Underlying().(*types.Slice).Elem())
			d["A_E_"+es], d["E_"+es] = true, true
		case *ssa.MakeMap:
			k := e.mapKeyOf(x.Type().Underlying().(*types.Map))
			d["A_M_"+k], d["MD_"+k], d["MC_"+k] = true, true, true
		case *ssa.Convert:
			if so.sortOf(x.X.Type()) == SStr && so.sortOf(x.Type()) == SSlice {
				d["A_E_Int"], d["E_Int"] = true, true
			}
		case *ssa.IndexAddr:
			// escaping interior pointers allocate a copy
			if t, ok := x.X.Type().Underlying().(*types.Slice); ok {
				if n, ok := t.Elem().(*types.Named); ok && so.isRepoType(n) {
					if stt, ok := n.Underlying().(*types.Struct); ok {
						for _, r := range *x.Referrers() {
							switch r.(type) {
							case *ssa.UnOp, *ssa.FieldAddr, *ssa.DebugRef, *ssa.Store, *ssa.BinOp:
							default:
								d["A_H_"+sanitize(so.shortTypeName(n))] = true
								for i := 0; i < stt.NumFields(); i++ {
									d[fieldComp(so, n, stt, i)] = true
								}
							}
						}
					}
				}
			}
		case *ssa.Next:
			if r, ok := x.Iter.(*ssa.Range); ok {
				id := fmt.Sprintf("%s_%s", sanitize(e.fnames[fn]), r.Name())
				d["RV_"+id], d["RN_"+id] = true, true
			}
		case *ssa.Range:
			id := fmt.Sprintf("%s_%s", sanitize(e.fnames[fn]), x.Name())
			d["RV_"+id], d["RN_"+id] = true, true
		case ssa.CallInstruction:
			c := x.Common()
			if bi, ok := c.Value.(*ssa.Builtin); ok {
				switch bi.Name() {
				case "append":
					if call, ok := in.(*ssa.Call); ok {
						es := so.elemKey(call.Type().Underlying().(*types.Slice).Elem())
						d["A_E_"+es], d["E_"+es] = true, true
					}
				case "copy":
					es := so.elemKey(c.Args[0].Type().Underlying().(*types.Slice).Elem())
					d["E_"+es] = true
				case "delete":
					k := e.mapKeyOf(c.Args[0].Type().Underlying().(*types.Map))
					d["MD_"+k], d["MC_"+k] = true, true
				}
				continue
			}
			if c.IsInvoke() {
				continue
			}
			if callee := c.StaticCallee(); callee != nil && !e.isRepoFunc(callee) {
				for _, m := range stubMods(callee) {
					d[m] = true
				}
			}
		}
	}
}

// arrayComp: the component holding the cells of an array allocation.  Go-level variadic argument lists of
// interface type (fmt operands) live apart from Borno arrays so that the latter can carry a cell invariant.
func (e *Engine) arrayComp(v ssa.Value, elem types.Type) string {
	if e.sorts.elemKey(elem) == "Val" && isVarargsAlloc(v) {
		return "EV_Val"
	}
	return "E_" + e.sorts.elemKey(elem)
}

func isVarargsAlloc(v ssa.Value) bool {
	al, ok := v.(*ssa.Alloc)
	return ok && al.Comment == "varargs"
}

func isVarargsSlice(v ssa.Value) bool {
	sl, ok := v.(*ssa.Slice)
	return ok && isVarargsAlloc(sl.X)
}

// scanCtorOnly finds struct-field components that are only ever written through a pointer to an object allocated in
// the same function invocation (struct literals, constructors).  Objects that already exist when a call or a loop
// starts are then never written by it: a sound frame fact added at every havoc of such a component.
func (e *Engine) scanCtorOnly() {
	e.compOwner = map[string]string{}
	e.notCtorOnly = map[string]bool{}
	so := e.sorts
	for _, fn := range e.funcs {
		for _, b := range fn.Blocks {
			for _, in := range b.Instrs {
				st, ok := in.(*ssa.Store)
				if !ok {
					continue
				}
				switch a := st.Addr.(type) {
				case *ssa.FieldAddr:
					// walk to the root
					root := ssa.Value(a)
					for {
						fa, ok := root.(*ssa.FieldAddr)
						if !ok {
							break
						}
						root = fa.X
					}
					first := a
					for {
						inner, ok := first.X.(*ssa.FieldAddr)
						if !ok {
							break
						}
						first = inner
					}
					pt, ok := first.X.Type().Underlying().(*types.Pointer)
					if !ok {
						continue
					}
					n, ok := pt.Elem().(*types.Named)
					if !ok || !so.isRepoType(n) {
						continue
					}
					stt, ok := n.Underlying().(*types.Struct)
					if !ok {
						continue
					}
					if _, isElem := root.(*ssa.IndexAddr); isElem {
						continue // a field of a slice element: lives in the element component
					}
					comp := fieldComp(so, n, stt, first.Field)
					e.compOwner[comp] = "A_H_" + sanitize(so.shortTypeName(n))
					if _, isAlloc := root.(*ssa.Alloc); !isAlloc {
						e.notCtorOnly[comp] = true
					}
				default:
					// whole-struct store through a pointer
					if _, isElem := st.Addr.(*ssa.IndexAddr); isElem {
						continue
					}
					pt, ok := st.Addr.Type().Underlying().(*types.Pointer)
					if !ok {
						continue
					}
					n, ok := pt.Elem().(*types.Named)
					if !ok || !so.isRepoType(n) {
						continue
					}
					stt, ok := n.Underlying().(*types.Struct)
					if !ok {
						continue
					}
					_, isAlloc := st.Addr.(*ssa.Alloc)
					for i := 0; i < stt.NumFields(); i++ {
						comp := fieldComp(so, n, stt, i)
						e.compOwner[comp] = "A_H_" + sanitize(so.shortTypeName(n))
						if !isAlloc {
							e.notCtorOnly[comp] = true
						}
					}
				}
			}
		}
	}
}

// ctorFrame: the frame fact for a constructor-only component havoced from old to nw.
func (fe *FuncEnc) ctorFrame(st *State, comp string, old, nw Term, aOld Term) {
	fe.assume(tBool(true), Term{fmt.Sprintf("(forall ((r Int)) (! (=> (select %s r) (= (select %s r) (select %s r))) :pattern ((select %s r))))", aOld.S, nw.S, old.S, nw.S), SBool})
}

// registerAllComps gives every heap component that any function can touch its sort up front, so that a havoc (call or
// loop) never skips a component merely because the function under proof has not mentioned it yet.
func (e *Engine) registerAllComps() {
	so := e.sorts
	seen := map[string]bool{}
	var reg func(t types.Type)
	reg = func(t types.Type) {
		if t == nil {
			return
		}
		key := types.TypeString(t, nil)
		if seen[key] {
			return
		}
		seen[key] = true
		switch u := t.Underlying().(type) {
		case *types.Pointer:
			el := u.Elem()
			if n, ok := el.(*types.Named); ok {
				if stt, ok := n.Underlying().(*types.Struct); ok {
					if so.isRepoType(n) {
						info := so.structInfo(so.sortOf(n))
						e.noteComp("A_H_"+sanitize(so.shortTypeName(n)), arrSort(SInt, SBool))
						for i := 0; i < stt.NumFields(); i++ {
							e.noteComp(fieldComp(so, n, stt, i), arrSort(SInt, info.FSorts[i]))
							reg(stt.Field(i).Type())
						}
					} else {
						e.noteComp("A_X_"+sanitize(so.shortTypeName(n)), arrSort(SInt, SBool))
						e.noteComp("X_"+sanitize(so.shortTypeName(n)), arrSort(SInt, SInt))
					}
					return
				}
			}
			if arr, ok := el.Underlying().(*types.Array); ok {
				k := so.elemKey(arr.Elem())
				e.noteComp("A_E_"+k, arrSort(SInt, SBool))
				e.noteComp("E_"+k, arrSort(SInt, arrSort(SInt, so.sortOf(arr.Elem()))))
				reg(arr.Elem())
				return
			}
			if _, ok := el.Underlying().(*types.Signature); ok {
				return
			}
			s := so.sortOf(el)
			e.noteComp("A_C_"+sortKey(s), arrSort(SInt, SBool))
			e.noteComp("C_"+sortKey(s), arrSort(SInt, s))
			reg(el)
		case *types.Slice:
			k := so.elemKey(u.Elem())
			e.noteComp("A_E_"+k, arrSort(SInt, SBool))
			e.noteComp("E_"+k, arrSort(SInt, arrSort(SInt, so.sortOf(u.Elem()))))
			reg(u.Elem())
		case *types.Map:
			k := e.mapKeyOf(u)
			ks, vs := so.sortOf(u.Key()), so.sortOf(u.Elem())
			e.noteComp("A_M_"+k, arrSort(SInt, SBool))
			e.noteComp("MD_"+k, arrSort(SInt, arrSort(ks, SBool)))
			e.noteComp("MV_"+k, arrSort(SInt, arrSort(ks, vs)))
			e.noteComp("MC_"+k, arrSort(SInt, SInt))
			reg(u.Elem())
		case *types.Struct:
			if n, ok := t.(*types.Named); ok && !so.isRepoType(n) {
				return
			}
			for i := 0; i < u.NumFields(); i++ {
				reg(u.Field(i).Type())
			}
		case *types.Tuple:
			for i := 0; i < u.Len(); i++ {
				reg(u.At(i).Type())
			}
		}
	}
	e.noteComp("EV_Val", arrSort(SInt, arrSort(SInt, SVal)))
	for _, fn := range e.funcs {
		for _, p := range fn.Params {
			reg(p.Type())
		}
		for _, b := range fn.Blocks {
			for _, in := range b.Instrs {
				if v, ok := in.(ssa.Value); ok {
					reg(v.Type())
				}
				for _, op := range in.Operands(nil) {
					if *op == nil {
						continue
					}
					if g, ok := (*op).(*ssa.Global); ok {
						el := g.Type().(*types.Pointer).Elem()
						name := "G_" + sanitize(e.pkgShort(g.Pkg)) + "_" + sanitize(g.Name())
						if _, dup := e.compSorts[name]; !dup {
							func() {
								defer func() { recover() }()
								e.noteComp(name, so.sortOf(el))
							}()
						}
						reg(el)
						continue
					}
					reg((*op).Type())
				}
				if r, ok := in.(*ssa.Range); ok {
					id := fmt.Sprintf("%s_%s", sanitize(e.fnames[fn]), r.Name())
					if mt, ok := r.X.Type().Underlying().(*types.Map); ok {
						e.noteComp("RV_"+id, arrSort(so.sortOf(mt.Key()), SBool))
					}
					e.noteComp("RN_"+id, SInt)
				}
			}
		}
	}
}

// reaches: can `from` (transitively) call `to`?
func (e *Engine) reaches(from, to *ssa.Function) bool {
	if from == to {
		return true
	}
	seen := map[*ssa.Function]bool{from: true}
	stack := []*ssa.Function{from}
	for len(stack) > 0 {
		g := stack[len(stack)-1]
		stack = stack[:len(stack)-1]
		for _, c := range e.calleesOf(g) {
			if c == to {
				return true
			}
			if !seen[c] {
				seen[c] = true
				stack = append(stack, c)
			}
		}
	}
	return false
}
