package main

// SMT script assembly and the solver portfolio.

import (
	"regexp"
	"bytes"
	"context"
	"crypto/sha256"
	"encoding/hex"
	"fmt"
	"go/constant"
	"go/types"
	"os"
	"os/exec"
	"path/filepath"
	"strings"
	"sync"
	"time"
)

type solverSpec struct {
	name string
	bin  string
	args func(timeoutS int) []string
	pre  string
}

var solverZ3New = solverSpec{name: "z3-new", bin: "z3-new", args: func(t int) []string { return []string{fmt.Sprintf("-T:%d", t)} }}
var solverZ3 = solverSpec{name: "z3", bin: "z3", args: func(t int) []string { return []string{fmt.Sprintf("-T:%d", t)} }}
var solverCVC5 = solverSpec{name: "cvc5", bin: "cvc5", args: func(t int) []string { return []string{fmt.Sprintf("--tlimit=%d", t*1000)} }, pre: "(set-logic ALL)\n"}
var solverCVC5FMF = solverSpec{name: "cvc5-enum", bin: "cvc5", args: func(t int) []string {
	return []string{fmt.Sprintf("--tlimit=%d", t*1000), "--enum-inst"}
}, pre: "(set-logic ALL)\n"}

// header: sorts, datatypes, string constants, spec prelude.
func (e *Engine) header() string {
	var sb strings.Builder
	sb.WriteString(basePrelude)
	sb.WriteString(extraPrelude)
	sb.WriteString(e.sorts.structDecls())
	if len(e.strOrder) > 0 {
		var names []string
		for i := range e.strOrder {
			n := fmt.Sprintf("strc_%d", i+1)
			sb.WriteString("(declare-const " + n + " Str)\n")
			names = append(names, n)
		}
		sb.WriteString("(assert (distinct str_empty str_nl " + strings.Join(names, " ") + "))\n")
		for i, lit := range e.strOrder {
			rs := []rune(lit)
			n := fmt.Sprintf("strc_%d", i+1)
			sb.WriteString(fmt.Sprintf("(assert (= (cplen %s) %d))\n", n, len(rs)))
			if len(rs) <= 24 {
				for k, r := range rs {
					sb.WriteString(fmt.Sprintf("(assert (= (cp %s %d) %d))\n", n, k, r))
				}
			}
		}
	} else {
		sb.WriteString("(assert (distinct str_empty str_nl))\n")
	}
	sb.WriteString("(assert (= (cplen str_nl) 1))\n(assert (= (cp str_nl 0) 10))\n")
	for _, zs := range e.sorts.zeroOrder {
		name := e.sorts.zeroArrays[zs]
		sb.WriteString(fmt.Sprintf("(declare-const %s %s)\n", name, zs))
		sb.WriteString(fmt.Sprintf("(assert (forall ((j %s)) (! (= (select %s j) %s) :pattern ((select %s j)))))\n", arrayIdxSort(zs), name, e.sorts.zeroOfSort(arrayElemSort(zs)).S, name))
	}
	sb.WriteString(e.constDefs())
	sb.WriteString(e.specs.text)
	for _, sd := range e.specDefs {
		sb.WriteString("; spec " + sd.Name + " (" + sd.Where + ")\n" + sd.SMT + "\n")
	}
	return sb.String()
}

func (o *Obl) script(header string) string {
	var sb strings.Builder
	header = o.fe.eng.headerFor(o.fe, header)
	sb.WriteString(header)
	sb.WriteString("; ---- function " + o.Func + "\n")
	keep := o.fe.slice(o)
	for i, it := range o.fe.items[:o.Pos] {
		if keep != nil && !keep[i] {
			continue
		}
		sb.WriteString(it.Text)
		sb.WriteString("\n")
	}
	sb.WriteString("; ---- obligation " + o.Name + "\n")
	if o.ExpectSat {
		sb.WriteString("(assert " + o.Goal.S + ")\n")
	} else {
		sb.WriteString("(assert (not " + o.Goal.S + "))\n")
	}
	sb.WriteString("(check-sat)\n")
	return sb.String()
}

// slice: cone of influence of an obligation over the items of its function.  Dropping assumptions is always sound; the
// cone keeps every definition the goal depends on and every assumption that shares a non-hub symbol with it (hubs are the
// entry-state symbols and parameters, which would otherwise connect everything).
func (fe *FuncEnc) slice(o *Obl) []bool {
	n := o.Pos
	if n < 400 || os.Getenv("VERIF_NOSLICE") != "" {
		return nil
	}
	fe.indexItems()
	keep := make([]bool, n)
	cone := map[string]bool{}
	var work []string
	add := func(sym string) {
		if _, ok := fe.defAt[sym]; ok && !cone[sym] {
			cone[sym] = true
			work = append(work, sym)
		}
	}
	for _, sy := range symRe.FindAllString(o.Goal.S, -1) {
		add(sy)
	}
	for len(work) > 0 {
		sy := work[len(work)-1]
		work = work[:len(work)-1]
		// definition
		if i := fe.defAt[sy]; i < n && !keep[i] {
			keep[i] = true
			for _, s2 := range fe.items[i].Syms {
				add(s2)
			}
		}
		if fe.hub[sy] {
			continue
		}
		for _, i := range fe.trigIn[sy] {
			if i >= n || keep[i] || fe.items[i].Def != "" {
				continue
			}
			keep[i] = true
			for _, s2 := range fe.items[i].Syms {
				add(s2)
			}
		}
	}
	// global facts: assertions over hubs only
	for i := 0; i < n; i++ {
		it := fe.items[i]
		if keep[i] || it.Def != "" {
			continue
		}
		all := true
		for _, sy := range it.Syms {
			if !fe.hub[sy] {
				all = false
				break
			}
		}
		if all {
			keep[i] = true
			for _, sy := range it.Syms {
				if j := fe.defAt[sy]; j < n {
					keep[j] = true
				}
			}
		}
	}
	return keep
}

func (fe *FuncEnc) indexItems() {
	if fe.defAt != nil && fe.indexedN == len(fe.items) {
		return
	}
	fe.defAt = map[string]int{}
	fe.usedIn = map[string][]int{}
	fe.trigIn = map[string][]int{}
	fe.hub = map[string]bool{}
	for i, it := range fe.items {
		if it.Def != "" {
			fe.defAt[it.Def] = i
			if strings.HasPrefix(it.Text, "(declare-const") && (strings.HasSuffix(it.Def, "_0") || strings.HasPrefix(it.Def, "p_")) {
				fe.hub[it.Def] = true
			}
		}
	}
	for i := range fe.items {
		it := &fe.items[i]
		seen := map[string]bool{}
		it.Syms = it.Syms[:0]
		for _, sy := range symRe.FindAllString(it.Text, -1) {
			if _, ok := fe.defAt[sy]; !ok || seen[sy] || sy == it.Def {
				continue
			}
			seen[sy] = true
			it.Syms = append(it.Syms, sy)
			fe.usedIn[sy] = append(fe.usedIn[sy], i)
		}
		if it.Def == "" {
			guardSyms := map[string]bool{}
			if it.Guard != "" && it.Guard != "true" {
				for _, sy := range symRe.FindAllString(it.Guard, -1) {
					guardSyms[sy] = true
				}
			}
			// symbols that occur in the fact part: all symbols whose number of occurrences exceeds those in the guard
			body := it.Text
			if it.Guard != "" && it.Guard != "true" {
				body = strings.Replace(body, it.Guard, "", 1)
			}
			seenT := map[string]bool{}
			for _, sy := range symRe.FindAllString(body, -1) {
				if _, ok := fe.defAt[sy]; !ok || seenT[sy] {
					continue
				}
				seenT[sy] = true
				fe.trigIn[sy] = append(fe.trigIn[sy], i)
			}
		}
	}
	fe.indexedN = len(fe.items)
}

type solveResult struct {
	status string
	solver string
	out    string
	secs   float64
}

func runSolver(ctx context.Context, sp solverSpec, file string, timeoutS int) solveResult {
	start := time.Now()
	cctx, cancel := context.WithTimeout(ctx, time.Duration(timeoutS+5)*time.Second)
	defer cancel()
	cmd := exec.CommandContext(cctx, sp.bin, append(sp.args(timeoutS), file)...)
	var out bytes.Buffer
	cmd.Stdout = &out
	cmd.Stderr = &out
	cmd.Run()
	secs := time.Since(start).Seconds()
	text := out.String()
	first := strings.TrimSpace(text)
	if i := strings.Index(first, "\n"); i >= 0 {
		first = strings.TrimSpace(first[:i])
	}
	st := "unknown"
	switch {
	case first == "unsat":
		st = "unsat"
	case first == "sat":
		st = "sat"
	case first == "timeout" || cctx.Err() != nil:
		st = "timeout"
	case strings.HasPrefix(first, "(error") || strings.Contains(text, "(error"):
		st = "error"
	}
	return solveResult{status: st, solver: sp.name, out: text, secs: secs}
}

// solveOne runs the portfolio on one obligation.
func (e *Engine) solveOne(o *Obl, header string, dir string, quickT, raceT int) {
	script := o.script(header)
	sum := sha256.Sum256([]byte(script))
	base := filepath.Join(dir, hex.EncodeToString(sum[:8]))
	z3file := base + ".smt2"
	os.WriteFile(z3file, []byte(script), 0o644)
	cvcfile := base + ".cvc5.smt2"
	os.WriteFile(cvcfile, []byte(solverCVC5.pre+script), 0o644)
	defer os.Remove(z3file)
	defer os.Remove(cvcfile)
	want := "unsat"
	if o.ExpectSat {
		want = "sat"
	}
	total := 0.0
	hasFP := strings.Contains(o.Goal.S, "fp.") || strings.Contains(script[strings.Index(script, "; ---- function"):], "fp.") || len(o.fe.conReveal()) > 0
	if strings.Contains(o.Goal.S, "(mod ") {
		hasFP = true // remainder arithmetic: z3 5.x is often slow where z3 4.8 / cvc5 are instant -- race at once
	}
	if o.batchMiss {
		hasFP = true // z3-new has had its turn in the batch pass: go straight to the race (z3 4.8 / cvc5 often answer at once)
	}
	if !hasFP {
		r := runSolver(context.Background(), solverZ3New, z3file, quickT)
		total += r.secs
		o.Status, o.Solver, o.Output, o.Time = r.status, r.solver, r.out, total
		if r.status == "unsat" || r.status == "sat" {
			return
		}
	}
	// race
	ctx, cancel := context.WithCancel(context.Background())
	defer cancel()
	type job struct {
		sp   solverSpec
		file string
	}
	jobs := []job{{solverZ3New, z3file}, {solverCVC5, cvcfile}, {solverZ3, z3file}}
	ch := make(chan solveResult, len(jobs))
	for _, j := range jobs {
		go func(j job) { ch <- runSolver(ctx, j.sp, j.file, raceT) }(j)
	}
	var best *solveResult
	start := time.Now()
	for range jobs {
		r := <-ch
		if r.status == "unsat" || r.status == "sat" {
			if best == nil || (best.status != want && r.status == want) {
				rr := r
				best = &rr
			}
			if r.status == want || true {
				break
			}
		} else if best == nil {
			rr := r
			best = &rr
		} else if best.status != "unsat" && best.status != "sat" && r.status == "unknown" {
			rr := r
			best = &rr
		}
	}
	cancel()
	total += time.Since(start).Seconds()
	if best != nil {
		o.Status, o.Solver, o.Output, o.Time = best.status, best.solver, best.out, total
	}
	_ = want
}

// crossCheck puts a discharged obligation to a solver of the other family.
func (e *Engine) crossCheck(o *Obl, header string, dir string) {
	script := o.script(header)
	sum := sha256.Sum256([]byte(script + "x"))
	base := filepath.Join(dir, hex.EncodeToString(sum[:8]))
	z3file := base + ".smt2"
	cvcfile := base + ".cvc5.smt2"
	os.WriteFile(z3file, []byte(script), 0o644)
	os.WriteFile(cvcfile, []byte(solverCVC5.pre+script), 0o644)
	defer os.Remove(z3file)
	defer os.Remove(cvcfile)
	var r solveResult
	if strings.HasPrefix(o.Solver, "cvc5") {
		r = runSolver(context.Background(), solverZ3New, z3file, 20)
	} else {
		r = runSolver(context.Background(), solverCVC5, cvcfile, 20)
	}
	o.Cross = r.status
	if r.status == "sat" {
		// the first family once more, alone and unhurried, on exactly this text
		var again solveResult
		if strings.HasPrefix(o.Solver, "cvc5") {
			again = runSolver(context.Background(), solverCVC5, cvcfile, 60)
		} else {
			again = runSolver(context.Background(), solverZ3New, z3file, 60)
		}
		if again.status != "unsat" {
			// the first verdict does not stand on the standalone text either: not discharged
			o.Status, o.Output = again.status, again.out
			o.Cross = "retracted"
		}
	}
}

// getModel re-runs a sat obligation asking for values of the input symbols.
func (e *Engine) getModel(o *Obl, header string, dir string) string {
	script := stripQuantified(o.script(header))
	var syms []string
	for _, in := range o.fe.inputs {
		syms = append(syms, in.Sym)
	}
	for _, extra := range []string{"G_utils_HadRuntimeError_0", "G_utils_HadError_0", "E_Val_0"} {
		if o.fe.declared[extra] {
			syms = append(syms, extra)
		}
	}
	for _, in := range o.fe.inputs {
		if in.Sort == SVal {
			syms = append(syms, "(ext.parsefloat.ok (trStr (vstr "+in.Sym+")))", "(ext.parsefloat.val (trStr (vstr "+in.Sym+")))")
		}
	}
	syms = append(syms, e.structParamTerms(o.fe)...)
	syms = append(syms, "str_empty")
	for i := range e.strOrder {
		syms = append(syms, fmt.Sprintf("strc_%d", i+1))
	}
	// the cone-of-influence slice may have dropped the declaration of a symbol we want a value for: put it back
	{
		seen := map[string]bool{}
		var add []string
		for _, tok := range regexp.MustCompile(`[A-Za-z_][A-Za-z0-9_.!$]*`).FindAllString(strings.Join(syms, " "), -1) {
			if seen[tok] || !o.fe.declared[tok] {
				continue
			}
			seen[tok] = true
			d1, d2 := "(declare-fun "+tok+" ", "(declare-const "+tok+" "
			if strings.Contains(script, d1) || strings.Contains(script, d2) {
				continue
			}
			for _, it := range o.fe.items {
				if strings.HasPrefix(it.Text, d1) || strings.HasPrefix(it.Text, d2) {
					add = append(add, it.Text)
					break
				}
			}
		}
		if len(add) > 0 {
			script = strings.Replace(script, "; ---- obligation ", strings.Join(add, "\n")+"\n; ---- obligation ", 1)
		}
	}
	script = "(set-option :produce-models true)\n" + script
	if len(syms) > 0 {
		script += "(get-value (" + strings.Join(syms, " ") + "))\n"
	}
	script += "(get-model)\n"
	file := filepath.Join(dir, "model_"+sanitize(o.Name)+".smt2")
	if len(file) > 200 {
		file = file[:200] + ".smt2"
	}
	// small models first: bias the slices inside struct parameters towards a size the replay can render
	var hints []string
	for _, t := range syms {
		if strings.HasPrefix(t, "(select H_") && strings.Contains(t, "_0 ") && !strings.Contains(t, "s.ref") {
			hints = append(hints, t)
		}
	}
	if len(hints) > 0 {
		hs := ""
		for _, t := range hints {
			// only slice-sorted fields have s.len; others make the hinted script ill-sorted and are skipped below
			if strings.Contains(strings.Join(syms, " "), "(s.ref "+t+")") {
				hs += "(assert (<= (s.len " + t + ") 6))\n"
			}
		}
		if hs != "" {
			hfile := file + ".small.smt2"
			os.WriteFile(hfile, []byte(strings.Replace(script, "(check-sat)\n", hs+"(check-sat)\n", 1)), 0o644)
			rh := runSolver(context.Background(), solverZ3New, hfile, 20)
			os.Remove(hfile)
			if rh.status == "sat" && !strings.Contains(rh.out, "(error") {
				return rh.out
			}
		}
	}
	os.WriteFile(file, []byte(script), 0o644)
	defer os.Remove(file)
	r := runSolver(context.Background(), solverZ3New, file, 20)
	if r.status != "sat" {
		cfile := file + ".cvc5.smt2"
		os.WriteFile(cfile, []byte("(set-option :produce-models true)\n"+solverCVC5.pre+strings.Replace(script, "(set-option :produce-models true)\n", "", 1)), 0o644)
		defer os.Remove(cfile)
		r2 := runSolver(context.Background(), solverCVC5, cfile, 60)
		if r2.status == "sat" {
			return r2.out
		}
	}
	return r.out
}

// batchFunction: first pass, one incremental z3-new process for all obligations of a function.
func (e *Engine) batchFunction(fe *FuncEnc, obls []*Obl, header string, dir string, perQueryMs int, chunk int) {
	if len(obls) == 0 {
		return
	}
	var sb strings.Builder
	sb.WriteString(fmt.Sprintf("(set-option :timeout %d)\n", perQueryMs))
	sb.WriteString(e.headerFor(fe, header))
	at := map[int][]*Obl{}
	for _, o := range obls {
		at[o.Pos] = append(at[o.Pos], o)
	}
	var order []*Obl
	last := 0
	for _, o := range obls {
		if o.Pos > last {
			last = o.Pos
		}
	}
	for i := 0; i <= last; i++ {
		for _, o := range at[i] {
			sb.WriteString("(push)\n")
			if o.ExpectSat {
				sb.WriteString("(assert " + o.Goal.S + ")\n")
			} else {
				sb.WriteString("(assert (not " + o.Goal.S + "))\n")
			}
			sb.WriteString("(check-sat)\n(pop)\n")

			order = append(order, o)
		}
		if i < last {
			sb.WriteString(fe.items[i].Text)
			sb.WriteString("\n")
		}
	}
	file := filepath.Join(dir, fmt.Sprintf("batch_%s_%d.smt2", sanitize(fe.name), chunk))
	text := sb.String()
	if len(obls) > 0 && obls[0].ExpectSat {
		// vacuity guards: without the quantified assumptions the queries are cheap, and a refutation is still a refutation
		text = stripQuantified(text)
	}
	os.WriteFile(file, []byte(text), 0o644)
	if os.Getenv("VERIF_KEEP") != "" {
		os.WriteFile("/tmp/keep_"+filepath.Base(file), []byte(sb.String()), 0o644)
	}
	defer os.Remove(file)
	start := time.Now()
	budget := len(order)*perQueryMs/1000 + 5
	if budget > 30 {
		budget = 30
	}
	sp := solverZ3New
	sp.args = func(t int) []string { return []string{fmt.Sprintf("-T:%d", t), fmt.Sprintf("-t:%d", perQueryMs)} }
	r := runSolver(context.Background(), sp, file, budget)
	secs := time.Since(start).Seconds()
	lines := strings.Split(strings.TrimSpace(r.out), "\n")
	k := 0
	for _, ln := range lines {
		ln = strings.TrimSpace(ln)
		if ln != "sat" && ln != "unsat" && ln != "unknown" && ln != "timeout" {
			if strings.HasPrefix(ln, "(error") && k < len(order) {
				// an error poisons the batch: leave everything from here to the individual pass
				for _, o := range order[k:] {
					o.Status = ""
					o.Output = ln
				}
				return
			}
			continue
		}
		if k >= len(order) {
			break
		}
		o := order[k]
		k++
		if ln == "unsat" || ln == "sat" {
			o.Status, o.Solver, o.Time = ln, "z3-new(batch)", secs/float64(len(order))
		} else {
			o.batchMiss = true // z3-new has had its turn: the individual pass goes straight to the race
		}
	}
	for _, o := range order[k:] {
		o.batchMiss = true // the batch ran out of its budget before reaching these: the race includes z3-new anyway
	}
}

func parallel(n int, jobs []func()) {
	var wg sync.WaitGroup
	ch := make(chan func())
	for i := 0; i < n; i++ {
		wg.Add(1)
		go func() {
			defer wg.Done()
			for j := range ch {
				j()
			}
		}()
	}
	for _, j := range jobs {
		ch <- j
	}
	close(ch)
	wg.Wait()
}

// stripQuantified drops quantified assertions (model finding only: the result is a candidate to be replayed).
func stripQuantified(script string) string {
	var sb strings.Builder
	for _, line := range strings.Split(script, "\n") {
		t := strings.TrimSpace(line)
		if strings.HasPrefix(t, "(assert (forall") || strings.HasPrefix(t, "(assert (! (forall") || (strings.HasPrefix(t, "(assert") && strings.Contains(t, "(forall ((")) {
			continue
		}
		sb.WriteString(line)
		sb.WriteString("\n")
	}
	return sb.String()
}

// constDefs: TAG_<type> for every dynamic type tag and K_<pkg>_<Name> for every integer constant of the repo packages.
func (e *Engine) constDefs() string {
	var sb strings.Builder
	for i, n := range e.sorts.tagNames {
		sb.WriteString(fmt.Sprintf("(define-fun %s () Int %d)\n", tagSymbol(n), i+1))
	}
	sb.WriteString(fmt.Sprintf("(define-fun TAG_error () Int %d)\n", errTag))
	for _, p := range e.pkgs {
		if !strings.HasPrefix(p.PkgPath, repoModule) {
			continue
		}
		scope := p.Types.Scope()
		for _, name := range scope.Names() {
			c, ok := scope.Lookup(name).(*types.Const)
			if !ok {
				continue
			}
			if e.sorts.sortOf(c.Type()) != SInt {
				continue
			}
			v, ok := constant.Int64Val(constant.ToInt(c.Val()))
			if !ok {
				continue
			}
			sb.WriteString(fmt.Sprintf("(define-fun K_%s_%s () Int %s)\n", sanitize(p.Types.Name()), sanitize(name), tInt(v).S))
		}
	}
	return sb.String()
}

func tagSymbol(typeString string) string {
	s := strings.ReplaceAll(typeString, repoModule+"/", "")
	s = strings.ReplaceAll(s, "*", "p_")
	return "TAG_" + sanitize(s)
}

// headerFor: the prelude with every `;@opaque` spec function turned into an uninterpreted one, unless the function's
// contract reveals it (definitions a proof does not need only slow the solvers down).
func (e *Engine) headerFor(fe *FuncEnc, base string) string {
	var reveal []string
	if fe != nil && fe.con != nil {
		reveal = fe.con.Reveal
	}
	key := strings.Join(reveal, ",")
	headerMu.Lock()
	defer headerMu.Unlock()
	if h, ok := e.headerCache[key]; ok {
		return h
	}
	h := base
	for _, name := range e.specs.opaque {
		if contains(reveal, name) {
			continue
		}
		h = makeOpaque(h, name)
	}
	e.headerCache[key] = h
	return h
}

var headerMu sync.Mutex

func makeOpaque(h, name string) string {
	marker := "(define-fun " + name + " ("
	i := strings.Index(h, marker)
	if i < 0 {
		return h
	}
	// find end of the form
	depth := 0
	j := i
	for ; j < len(h); j++ {
		if h[j] == '(' {
			depth++
		} else if h[j] == ')' {
			depth--
			if depth == 0 {
				break
			}
		}
	}
	form := h[i : j+1]
	parts := splitTop(form[1 : len(form)-1])
	var ps []string
	for _, p := range splitTop(strings.TrimSuffix(strings.TrimPrefix(parts[2], "("), ")")) {
		pp := splitTop(p[1 : len(p)-1])
		ps = append(ps, strings.Join(pp[1:], " "))
	}
	decl := "(declare-fun " + name + " (" + strings.Join(ps, " ") + ") " + parts[3] + ")"
	return h[:i] + decl + h[j+1:]
}
