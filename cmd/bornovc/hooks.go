package main

// Cell invariants (asserted at stores, assumed at loads) and rule-monitor hooks.

import (
	"go/token"
	"go/types"
	"golang.org/x/tools/go/ssa"
	"strings"
)

// cellInvFor finds the declared invariant for a component.
func (fe *FuncEnc) cellInvFor(comp string) *CellInv {
	for _, ci := range fe.eng.cellinvs {
		if ci.Comp == comp {
			return ci
		}
	}
	return nil
}

func (fe *FuncEnc) evalCellInv(ci *CellInv, v Term, typ types.Type, st *State) Term {
	names := map[string]TV{ci.Var: {v, typ}}
	return fe.evalClause(&Frame{params: map[string]Term{}, ptypes: map[string]types.Type{}}, ci.Expr, st, st, names, nil, token.NoPos)
}

func (fe *FuncEnc) addrComp(a *Addr) string {
	if a.Kind == aField && a.Comp == "" {
		return ""
	}
	return a.Comp
}

// cellCheck: obligation that a stored value satisfies the cell invariant of its component.
func (fe *FuncEnc) cellCheck(f *Frame, a *Addr, v Term, st *State, path Term, pos token.Pos) {
	comp := fe.addrComp(a)
	if comp == "" || len(a.Path) > 0 {
		return
	}
	if ci := fe.cellInvFor(comp); ci != nil {
		t := fe.evalCellInv(ci, v, a.Typ, st)
		fe.emit("cell", fe.srcLabel(pos, "assign")+"."+strings.TrimPrefix(ci.Expr.Label, "cell."), path, t, ci.Expr.Text, pos)
	}
}

func (fe *FuncEnc) cellAssume(f *Frame, a *Addr, v Term, st *State, path Term) {
	comp := fe.addrComp(a)
	if comp == "" || len(a.Path) > 0 {
		return
	}
	if ci := fe.cellInvFor(comp); ci != nil {
		fe.assume(path, fe.evalCellInv(ci, v, a.Typ, st))
	}
}

func (fe *FuncEnc) mapCellCheck(f *Frame, mt *types.Map, m, k, v Term, st *State, path Term, pos token.Pos) {
	comp := "MV_" + fe.eng.mapKeyOf(mt)
	if ci := fe.cellInvFor(comp); ci != nil {
		t := fe.evalCellInv(ci, v, mt.Elem(), st)
		fe.emit("cell", fe.srcLabel(pos, "assign")+"."+strings.TrimPrefix(ci.Expr.Label, "cell."), path, t, ci.Expr.Text, pos)
	}
}

func (fe *FuncEnc) mapCellAssume(f *Frame, mt *types.Map, m, k, v Term, has Term, st *State, path Term) {
	comp := "MV_" + fe.eng.mapKeyOf(mt)
	if ci := fe.cellInvFor(comp); ci != nil {
		fe.assume(tAnd(path, has), fe.evalCellInv(ci, v, mt.Elem(), st))
	}
}

// appendCellCheck: every appended element satisfies the element component's invariant.
func (fe *FuncEnc) appendCellCheck(f *Frame, elemT types.Type, b Term, e Term, constN int64, st *State, path Term, pos token.Pos) {
	comp := "E_" + fe.eng.sorts.elemKey(elemT)
	ci := fe.cellInvFor(comp)
	if ci == nil {
		return
	}
	label := fe.srcLabel(pos, "call") + "." + strings.TrimPrefix(ci.Expr.Label, "cell.")
	if constN >= 0 {
		for k := int64(0); k < constN; k++ {
			elem := tSelect(tSelect(e, slRef(b)), tAdd(slOff(b), tInt(k)))
			fe.emit("cell", label, path, fe.evalCellInv(ci, elem, elemT, st), ci.Expr.Text, pos)
		}
		return
	}
	// the appended run comes from a slice of the same component: its cells satisfy the invariant already
	if e.S == fe.comp(st, comp, e.Sort).S {
		return
	}
	k := Term{"q_app", SInt}
	elem := tSelect(tSelect(e, slRef(b)), tAdd(slOff(b), k))
	body := fe.evalCellInv(ci, elem, elemT, st)
	goal := Term{"(forall ((q_app Int)) (=> (and (<= 0 q_app) (< q_app (s.len " + b.S + "))) " + body.S + "))", SBool}
	fe.emit("cell", label, path, goal, ci.Expr.Text, pos)
}

// ---------------------------------------------------------------------
// rule monitor hooks (see rules.go)

type Rule struct{}

type MonitorCtx struct{}

func (fe *FuncEnc) monReturn(f *Frame, st *State, reach Term, res []Term, pos token.Pos)      {}
func (fe *FuncEnc) monLoopEntry(f *Frame, li *loopInfo, st *State, reach Term, pos token.Pos) {}
func (fe *FuncEnc) monLoopHavoc(f *Frame, li *loopInfo, st *State, reach Term)                {}
func (fe *FuncEnc) monBackEdge(f *Frame, li *loopInfo, st *State, cond Term, pos token.Pos)   {}

// typeInvFor: the declared invariant of objects of a named struct type (by short name pkg.Type).
func (fe *FuncEnc) typeInvFor(t types.Type) (*CellInv, *types.Named) {
	n, _, ok := fe.structOfPointer(t)
	if !ok {
		return nil, nil
	}
	name := fe.eng.sorts.shortTypeName(n)
	for _, ti := range fe.eng.typeinvs {
		if ti.Comp == name {
			return ti, n
		}
	}
	return nil, nil
}

// publishCheck: when a freshly built object becomes an interface value (the parser hands a node on), its type invariant
// and the cell invariants of all its fields must hold — fields left at their zero value included.
func (fe *FuncEnc) publishCheck(f *Frame, x *ssa.MakeInterface, st *State, path Term) {
	n, stt, ok := fe.structOfPointer(x.X.Type())
	if !ok {
		return
	}
	if _, isAlloc := x.X.(*ssa.Alloc); !isAlloc {
		return
	}
	so := fe.eng.sorts
	ref := fe.val(x.X)
	info := so.structInfo(so.sortOf(n))
	for i := 0; i < stt.NumFields(); i++ {
		comp := fieldComp(so, n, stt, i)
		if ci := fe.cellInvFor(comp); ci != nil {
			h := fe.comp(st, comp, arrSort(SInt, info.FSorts[i]))
			t := fe.evalCellInv(ci, tSelect(h, ref), stt.Field(i).Type(), st)
			fe.emit("cell", "publish "+so.shortTypeName(n)+"."+stt.Field(i).Name(), path, t, ci.Expr.Text, x.Pos())
		}
	}
	if ti, _ := fe.typeInvFor(x.X.Type()); ti != nil {
		t := fe.evalCellInv(ti, ref, x.X.Type(), st)
		fe.emit("typeinv", "publish "+so.shortTypeName(n), path, t, ti.Expr.Text, x.Pos())
	}
}

func (fe *FuncEnc) typeInvAssume(f *Frame, ref Term, t types.Type, path Term, st *State) {
	if ti, _ := fe.typeInvFor(t); ti != nil {
		fe.assume(path, fe.evalCellInv(ti, ref, t, st))
		fe.assumes["type invariants of syntax-tree nodes are established when the parser builds the node and assumed when the node is inspected; the maps and lists they mention are not modified afterwards"] = true
	}
}
