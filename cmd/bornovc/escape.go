package main

// Unescaped locals: a slice or map that the current invocation allocated itself and of which no reference has left the
// function's registers before a call (it was never converted to an interface, stored, passed or returned on any path
// leading to the call) cannot be reached by the callee: its backing array / table keeps its contents across the call even
// when the callee writes other arrays or maps of the same component.  Syntactic over go/ssa (alias classes through
// Slice, Phi, append and ChangeType; flow-sensitive in the position of the escaping use), sound by construction; it is
// what lets an argument list, an array literal or an object literal under construction keep its contents while the next
// child is evaluated.

import (
	"go/types"

	"golang.org/x/tools/go/ssa"
)

type escInfo struct {
	class   map[ssa.Value]int         // alias class of every fresh-rooted slice/map value
	fresh   map[int]bool              // class consists of locally allocated values only
	escapes map[int][]ssa.Instruction // escaping uses per class
	reachB  map[[2]int]bool           // block reachability (through at least one edge)
}

var escCache = map[*ssa.Function]*escInfo{}

func isSliceOrMap(t types.Type) bool {
	switch t.Underlying().(type) {
	case *types.Slice, *types.Map:
		return true
	}
	return false
}

func (e *Engine) escapeInfo(fn *ssa.Function) *escInfo {
	if ei, ok := escCache[fn]; ok {
		return ei
	}
	ei := &escInfo{class: map[ssa.Value]int{}, fresh: map[int]bool{}, escapes: map[int][]ssa.Instruction{}, reachB: map[[2]int]bool{}}
	escCache[fn] = ei
	// union-find over values
	parent := map[ssa.Value]ssa.Value{}
	var find func(v ssa.Value) ssa.Value
	find = func(v ssa.Value) ssa.Value {
		p, ok := parent[v]
		if !ok {
			parent[v] = v
			return v
		}
		if p == v {
			return v
		}
		r := find(p)
		parent[v] = r
		return r
	}
	union := func(a, b ssa.Value) { parent[find(a)] = find(b) }
	var members []ssa.Value
	notFresh := map[ssa.Value]bool{}
	for _, b := range fn.Blocks {
		for _, in := range b.Instrs {
			v, ok := in.(ssa.Value)
			if !ok || !isSliceOrMap(v.Type()) {
				continue
			}
			switch x := in.(type) {
			case *ssa.MakeSlice, *ssa.MakeMap:
				find(v)
				members = append(members, v)
			case *ssa.Slice:
				// slicing a slice aliases it; slicing a local array (varargs) is a root of its own only if the array does not escape: not handled
				if _, isSl := x.X.Type().Underlying().(*types.Slice); isSl {
					union(v, x.X)
				} else if al, isAl := x.X.(*ssa.Alloc); isAl && !isVarargsAlloc(al) && localArrayOnlySliced(al) {
					// a composite literal []T{...}: the array is allocated here and only reachable through this slice
					find(v)
				} else {
					notFresh[v] = true
				}
				members = append(members, v)
			case *ssa.Phi:
				for _, ed := range x.Edges {
					if c, isC := ed.(*ssa.Const); isC && c.Value == nil {
						continue
					}
					union(v, ed)
				}
				members = append(members, v)
			case *ssa.ChangeType:
				union(v, x.X)
				members = append(members, v)
			case *ssa.Call:
				if bi, ok := x.Common().Value.(*ssa.Builtin); ok && bi.Name() == "append" {
					a0 := x.Common().Args[0]
					if c, isC := a0.(*ssa.Const); !(isC && c.Value == nil) {
						union(v, a0)
					} else {
						find(v)
					}
					members = append(members, v)
				} else {
					notFresh[v] = true
					find(v)
					members = append(members, v)
				}
			default:
				notFresh[v] = true
				find(v)
				members = append(members, v)
			}
		}
	}
	for _, p := range fn.Params {
		if isSliceOrMap(p.Type()) {
			notFresh[p] = true
			find(p)
			members = append(members, p)
		}
	}
	for _, fv := range fn.FreeVars {
		notFresh[fv] = true
		find(fv)
	}
	// number the classes
	ids := map[ssa.Value]int{}
	for v := range parent {
		r := find(v)
		if _, ok := ids[r]; !ok {
			ids[r] = len(ids) + 1
			ei.fresh[ids[r]] = true
		}
	}
	for v := range parent {
		id := ids[find(v)]
		ei.class[v] = id
		if notFresh[v] {
			ei.fresh[id] = false
		}
		switch v.(type) {
		case *ssa.Parameter, *ssa.FreeVar, *ssa.Global, *ssa.UnOp, *ssa.Extract, *ssa.Lookup, *ssa.Index, *ssa.Field, *ssa.TypeAssert, *ssa.Next, *ssa.Select:
			ei.fresh[id] = false
		}
	}
	// escaping uses
	var addrEscapes func(a ssa.Value) []ssa.Instruction
	addrEscapes = func(a ssa.Value) []ssa.Instruction {
		var out []ssa.Instruction
		for _, r := range *a.Referrers() {
			switch u := r.(type) {
			case *ssa.Store:
				if u.Val == a {
					out = append(out, u)
				}
			case *ssa.UnOp, *ssa.DebugRef:
			case *ssa.FieldAddr:
				out = append(out, addrEscapes(u)...)
			case *ssa.IndexAddr:
				out = append(out, addrEscapes(u)...)
			default:
				out = append(out, r)
			}
		}
		return out
	}
	for v, id := range ei.class {
		if !ei.fresh[id] {
			continue
		}
		refs := v.Referrers()
		if refs == nil {
			continue
		}
		for _, r := range *refs {
			switch u := r.(type) {
			case *ssa.IndexAddr:
				if u.X == v {
					ei.escapes[id] = append(ei.escapes[id], addrEscapes(u)...)
				} else {
					ei.escapes[id] = append(ei.escapes[id], r)
				}
			case *ssa.Index, *ssa.Lookup, *ssa.Range, *ssa.DebugRef, *ssa.Slice, *ssa.Phi, *ssa.ChangeType:
				if lk, ok := r.(*ssa.Lookup); ok && lk.Index == v {
					ei.escapes[id] = append(ei.escapes[id], r)
				}
			case *ssa.MapUpdate:
				if u.Key == v || u.Value == v {
					ei.escapes[id] = append(ei.escapes[id], r)
				}
			case *ssa.BinOp:
				// comparison with nil
			case *ssa.Call:
				if bi, ok := u.Common().Value.(*ssa.Builtin); ok {
					switch bi.Name() {
					case "append", "len", "cap", "copy", "delete":
						continue
					}
				}
				ei.escapes[id] = append(ei.escapes[id], r)
			default:
				ei.escapes[id] = append(ei.escapes[id], r)
			}
		}
	}
	// block reachability
	for _, b := range fn.Blocks {
		seen := map[int]bool{}
		stack := append([]*ssa.BasicBlock{}, b.Succs...)
		for len(stack) > 0 {
			c := stack[len(stack)-1]
			stack = stack[:len(stack)-1]
			if seen[c.Index] {
				continue
			}
			seen[c.Index] = true
			ei.reachB[[2]int{b.Index, c.Index}] = true
			stack = append(stack, c.Succs...)
		}
	}
	return ei
}

// localArrayOnlySliced: the array behind a composite literal is initialised element by element and then sliced, nothing else.
func localArrayOnlySliced(al *ssa.Alloc) bool {
	refs := al.Referrers()
	if refs == nil {
		return false
	}
	for _, r := range *refs {
		switch u := r.(type) {
		case *ssa.Slice, *ssa.DebugRef:
		case *ssa.IndexAddr:
			for _, rr := range *u.Referrers() {
				if st, ok := rr.(*ssa.Store); !ok || st.Addr != u {
					return false
				}
			}
		default:
			return false
		}
	}
	return true
}

func instrIndex(in ssa.Instruction) int {
	for i, x := range in.Block().Instrs {
		if x == in {
			return i
		}
	}
	return -1
}

// unescapedAt: the slice/map values of fn, defined on every path to `at`, that belong to a locally allocated alias class
// no member of which has an escaping use that can execute before or at `at`.
func (e *Engine) unescapedAt(fn *ssa.Function, at ssa.Instruction) []ssa.Value {
	ei := e.escapeInfo(fn)
	ab := at.Block()
	ai := instrIndex(at)
	escaped := map[int]bool{}
	for id, uses := range ei.escapes {
		for _, u := range uses {
			ub := u.Block()
			if ub == nil {
				escaped[id] = true
				break
			}
			if (ub == ab && instrIndex(u) <= ai) || ei.reachB[[2]int{ub.Index, ab.Index}] {
				escaped[id] = true
				break
			}
		}
	}
	var out []ssa.Value
	for v, id := range ei.class {
		if !ei.fresh[id] || escaped[id] {
			continue
		}
		in, ok := v.(ssa.Instruction)
		if !ok {
			continue
		}
		vb := in.Block()
		if vb == ab {
			if instrIndex(in) >= ai {
				continue
			}
		} else if !vb.Dominates(ab) {
			continue
		}
		out = append(out, v)
	}
	return out
}
