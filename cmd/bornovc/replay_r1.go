package main

func (e *Engine) replayR1(o *Obl, rf *ReplayFile) bool { return false }
