package main

// R1: function-level replay of a solver model against the real code (go test -overlay on the snapshot).

import (
	"encoding/json"
	"fmt"
	"go/types"
	"math"
	"os"
	"os/exec"
	"path/filepath"
	"strconv"
	"strings"
	"time"
)

type sx struct {
	atom string
	list []*sx
}

func parseSx(s string) []*sx {
	var out []*sx
	i := 0
	var parse func() *sx
	skip := func() {
		for i < len(s) && (s[i] == ' ' || s[i] == '\n' || s[i] == '\t' || s[i] == '\r') {
			i++
		}
	}
	parse = func() *sx {
		skip()
		if i >= len(s) {
			return nil
		}
		if s[i] == '(' {
			i++
			n := &sx{list: []*sx{}}
			for {
				skip()
				if i >= len(s) {
					return n
				}
				if s[i] == ')' {
					i++
					return n
				}
				c := parse()
				if c == nil {
					return n
				}
				n.list = append(n.list, c)
			}
		}
		if s[i] == '"' {
			j := i + 1
			for j < len(s) && s[j] != '"' {
				j++
			}
			a := s[i : j+1]
			i = j + 1
			return &sx{atom: a}
		}
		if s[i] == '|' {
			j := i + 1
			for j < len(s) && s[j] != '|' {
				j++
			}
			a := s[i : j+1]
			i = j + 1
			return &sx{atom: a}
		}
		j := i
		for j < len(s) && !strings.ContainsRune(" \n\t\r()", rune(s[j])) {
			j++
		}
		a := s[i:j]
		i = j
		return &sx{atom: a}
	}
	for {
		skip()
		if i >= len(s) {
			break
		}
		if s[i] == ')' {
			i++
			continue
		}
		n := parse()
		if n == nil {
			break
		}
		out = append(out, n)
	}
	return out
}

func (n *sx) String() string {
	if n.list == nil {
		return n.atom
	}
	var ps []string
	for _, c := range n.list {
		ps = append(ps, c.String())
	}
	return "(" + strings.Join(ps, " ") + ")"
}

func (n *sx) head() string {
	if n.list != nil && len(n.list) > 0 && n.list[0].list == nil {
		return n.list[0].atom
	}
	return n.atom
}

type r1ctx struct {
	e       *Engine
	strs    map[string]string // abstract Str value -> Go literal
	known   map[string]string // abstract value -> literal of a known constant
	nstr    int
	objs    map[string]string
	decls   []string
	tagName map[int]string
	ok      bool
	heap    map[string]*sx
	numeric map[string]string // Val model value -> numeric string literal the model wants it to parse as
}

func (c *r1ctx) goString(v *sx) string {
	key := v.String()
	if lit, ok := c.known[key]; ok {
		return strconv.Quote(lit)
	}
	if lit, ok := c.strs[key]; ok {
		return strconv.Quote(lit)
	}
	c.nstr++
	lit := fmt.Sprintf("s%d", c.nstr)
	c.strs[key] = lit
	return strconv.Quote(lit)
}

func bitsOfFP(v *sx) (uint64, bool) {
	// (fp #b0 #b... #b...) | (_ +zero 11 53) | (_ NaN 11 53) ...
	if v.list != nil && len(v.list) == 4 && v.list[0].atom == "fp" {
		parse := func(a string) (uint64, int) {
			if strings.HasPrefix(a, "#b") {
				u, _ := strconv.ParseUint(a[2:], 2, 64)
				return u, len(a) - 2
			}
			if strings.HasPrefix(a, "#x") {
				u, _ := strconv.ParseUint(a[2:], 16, 64)
				return u, (len(a) - 2) * 4
			}
			return 0, 0
		}
		s, _ := parse(v.list[1].atom)
		e, _ := parse(v.list[2].atom)
		m, _ := parse(v.list[3].atom)
		return s<<63 | e<<52 | m, true
	}
	if v.list != nil && len(v.list) >= 2 && v.list[0].atom == "_" {
		switch v.list[1].atom {
		case "+zero":
			return 0, true
		case "-zero":
			return 1 << 63, true
		case "+oo":
			return 0x7ff0000000000000, true
		case "-oo":
			return 0xfff0000000000000, true
		case "NaN":
			return 0x7ff8000000000001, true
		}
	}
	return 0, false
}

func intOfSx(v *sx) (int64, bool) {
	if v.list != nil && len(v.list) == 2 && v.list[0].atom == "-" {
		i, err := strconv.ParseInt(v.list[1].atom, 10, 64)
		return -i, err == nil
	}
	i, err := strconv.ParseInt(v.atom, 10, 64)
	return i, err == nil
}

func bvOfSx(v *sx) (uint64, bool) {
	if strings.HasPrefix(v.atom, "#x") {
		u, err := strconv.ParseUint(v.atom[2:], 16, 64)
		return u, err == nil
	}
	if strings.HasPrefix(v.atom, "#b") {
		u, err := strconv.ParseUint(v.atom[2:], 2, 64)
		return u, err == nil
	}
	return 0, false
}

// goVal renders a model value of sort Val as a Go expression (package-qualified for package pkg).
func (c *r1ctx) goVal(v *sx, pkg string) string {
	q := func(p, n string) string {
		if p == pkg {
			return n
		}
		return p + "." + n
	}
	switch v.head() {
	case "VNil":
		return "nil"
	case "VBool":
		return v.list[1].atom
	case "VF64":
		if b, ok := bitsOfFP(v.list[1]); ok {
			return fmt.Sprintf("math.Float64frombits(0x%x)", b)
		}
	case "VI64":
		if b, ok := bvOfSx(v.list[1]); ok {
			return fmt.Sprintf("int64(%d)", int64(b))
		}
	case "VInt":
		if i, ok := intOfSx(v.list[1]); ok {
			return fmt.Sprintf("int(%d)", i)
		}
	case "VStr":
		if lit, ok := c.numeric[v.String()]; ok {
			return strconv.Quote(lit)
		}
		return c.goString(v.list[1])
	case "VRunes":
		n := c.sliceLen(v.list[1])
		return fmt.Sprintf("[]rune(%q)", strings.Repeat("x", n))
	case "VArr":
		return c.goArr(v.list[1])
	case "VObj":
		key := v.list[1].String()
		if name, ok := c.objs[key]; ok {
			return name
		}
		name := fmt.Sprintf("obj%d", len(c.objs))
		c.objs[key] = name
		c.decls = append(c.decls, fmt.Sprintf("%s := map[string]interface{}{}", name))
		return name
	case "VPtr":
		tag, _ := intOfSx(v.list[1])
		tn := c.tagName[int(tag)]
		if strings.HasSuffix(tn, "interpreter.Function") && strings.HasPrefix(tn, "*") {
			return "&" + q("interpreter", "Function") + "{Declaration: &ast.FunctionStmt{Name: token.Token{Lexeme: \"f\"}}, Closure: environment.NewEnvironment()}"
		}
	case "VStruct":
		tag, _ := intOfSx(v.list[1])
		tn := c.tagName[int(tag)]
		if i := strings.LastIndex(tn, "."); i >= 0 && strings.Contains(tn, "/interpreter.") {
			return q("interpreter", tn[i+1:]) + "{}"
		}
	}
	c.ok = false
	return "nil /* unrepresentable: " + v.String() + " */"
}

func (c *r1ctx) sliceLen(v *sx) int {
	if v.head() == "mkSlice" && len(v.list) == 5 {
		n, _ := intOfSx(v.list[3])
		if n < 0 || n > 64 {
			return 0
		}
		return int(n)
	}
	return 0
}

func (c *r1ctx) goArr(v *sx) string {
	if v.head() != "mkSlice" || len(v.list) != 5 {
		c.ok = false
		return "nil"
	}
	ln, _ := intOfSx(v.list[3])
	cp, _ := intOfSx(v.list[4])
	if ln < 0 || ln > 64 {
		ln = 0
	}
	if cp < ln || cp > 128 {
		cp = ln
	}
	var elems []string
	for k := int64(0); k < ln; k++ {
		elems = append(elems, fmt.Sprintf("float64(%d)", k+1))
	}
	name := fmt.Sprintf("arr%d", len(c.decls))
	c.decls = append(c.decls, fmt.Sprintf("%s := append(make([]interface{}, 0, %d), %s)", name, cp, strings.Join(elems, ", ")))
	if len(elems) == 0 {
		c.decls[len(c.decls)-1] = fmt.Sprintf("%s := make([]interface{}, 0, %d)", name, cp)
	}
	return name
}

// goParam renders a model value for a parameter of Go type t.
func (c *r1ctx) goParam(v *sx, t types.Type, pkg string) string {
	switch u := t.Underlying().(type) {
	case *types.Interface:
		return c.goVal(v, pkg)
	case *types.Basic:
		switch {
		case u.Kind() == types.Bool:
			return v.atom
		case u.Kind() == types.Float64:
			if b, ok := bitsOfFP(v); ok {
				return fmt.Sprintf("math.Float64frombits(0x%x)", b)
			}
		case u.Kind() == types.Int64:
			if b, ok := bvOfSx(v); ok {
				return fmt.Sprintf("int64(%d)", int64(b))
			}
		case u.Info()&types.IsInteger != 0:
			if i, ok := intOfSx(v); ok {
				return fmt.Sprintf("%s(%d)", types.TypeString(t, func(p *types.Package) string {
					if p.Name() == pkg {
						return ""
					}
					return p.Name()
				}), i)
			}
		case u.Kind() == types.String:
			return c.goString(v)
		}
	case *types.Struct:
		if n, ok := t.(*types.Named); ok && n.Obj().Name() == "Token" && len(v.list) == 5 {
			ty, _ := intOfSx(v.list[1])
			line, _ := intOfSx(v.list[4])
			return fmt.Sprintf("token.Token{Type: token.TokenType(%d), Lexeme: %s, Literal: %s, Line: %d}", ty, c.goString(v.list[2]), c.goVal(v.list[3], pkg), line)
		}
		if u.NumFields() == 0 {
			return types.TypeString(t, func(p *types.Package) string {
				if p.Name() == pkg {
					return ""
				}
				return p.Name()
			}) + "{}"
		}
	case *types.Slice:
		if isValSlice(t) {
			// contents come from the heap model when available
			return c.goArgList(v, pkg)
		}
	case *types.Pointer:
		if n, ok := u.Elem().(*types.Named); ok && n.Obj().Name() == "Interpreter" {
			if pkg == "interpreter" {
				return "NewInterpreter()"
			}
			return "interpreter.NewInterpreter()"
		}
	}
	c.ok = false
	return "nil"
}

const r1MaxElems = 24

// structFieldTerm: the SMT term of field i of the struct a pointer parameter points to, in the entry state.
func structFieldTerm(so *Sorts, n *types.Named, stt *types.Struct, i int, sym string) string {
	return "(select " + fieldComp(so, n, stt, i) + "_0 " + sym + ")"
}

func sliceElemTerm(comp, field string, k int) string {
	return fmt.Sprintf("(select (select %s_0 (s.ref %s)) (+ (s.off %s) %d))", comp, field, field, k)
}

// structParamTerms: get-value terms that let the replay rebuild pointer-to-struct parameters (receivers such as *Scanner,
// *Parser) of the function's own package: every field, and the first r1MaxElems cells of slice-typed fields.
func (e *Engine) structParamTerms(fe *FuncEnc) []string {
	var out []string
	if fe == nil || fe.fn == nil {
		return nil
	}
	for idx, in := range fe.inputs {
		if idx >= len(fe.fn.Params) {
			break
		}
		n, stt, ok := fe.structOfPointer(fe.fn.Params[idx].Type())
		if !ok || n.Obj().Pkg() == nil || fe.fn.Pkg == nil || n.Obj().Pkg() != fe.fn.Pkg.Pkg || n.Obj().Name() == "Interpreter" {
			continue
		}
		for i := 0; i < stt.NumFields(); i++ {
			comp := fieldComp(e.sorts, n, stt, i)
			if !fe.declared[comp+"_0"] {
				continue
			}
			ft := structFieldTerm(e.sorts, n, stt, i, in.Sym)
			out = append(out, ft)
			if sl, isSl := stt.Field(i).Type().Underlying().(*types.Slice); isSl {
				ec := "E_" + e.sorts.elemKey(sl.Elem())
				if fe.declared[ec+"_0"] {
					for k := 0; k < r1MaxElems; k++ {
						out = append(out, sliceElemTerm(ec, ft, k))
					}
				}
			}
		}
	}
	return out
}

func canonTerm(t string) string {
	f := parseSx(t)
	if len(f) == 0 {
		return t
	}
	return f[0].String()
}

// goStructPtr renders &T{...} for a pointer parameter from the model; fields the model leaves out of the query (never read
// by the function) keep their zero value.
func (c *r1ctx) goStructPtr(fe *FuncEnc, sym string, t types.Type, pkg string, vals map[string]*sx) string {
	n, stt, ok := fe.structOfPointer(t)
	if !ok {
		c.ok = false
		return "nil"
	}
	if pv, has := vals[sym]; has {
		if r, isInt := intOfSx(pv); isInt && r == 0 {
			return "nil"
		}
	}
	var fields []string
	for i := 0; i < stt.NumFields(); i++ {
		ft := structFieldTerm(c.e.sorts, n, stt, i, sym)
		v := vals[canonTerm(ft)]
		if v == nil {
			continue
		}
		f := stt.Field(i)
		switch u := f.Type().Underlying().(type) {
		case *types.Slice:
			if v.head() != "mkSlice" || len(v.list) != 5 {
				c.ok = false
				return "nil"
			}
			ln, _ := intOfSx(v.list[3])
			cp, _ := intOfSx(v.list[4])
			if ln < 0 || ln > r1MaxElems || cp < ln {
				c.ok = false
				return "nil"
			}
			ec := "E_" + c.e.sorts.elemKey(u.Elem())
			var elems []string
			for k := 0; k < int(ln); k++ {
				ev := vals[canonTerm(sliceElemTerm(ec, ft, k))]
				if ev == nil {
					c.ok = false
					return "nil"
				}
				elems = append(elems, c.goParam(ev, u.Elem(), pkg))
			}
			ts := types.TypeString(f.Type(), func(p *types.Package) string {
				if p.Name() == pkg {
					return ""
				}
				return p.Name()
			})
			fields = append(fields, fmt.Sprintf("%s: %s{%s}", f.Name(), ts, strings.Join(elems, ", ")))
		case *types.Basic, *types.Interface, *types.Struct:
			fields = append(fields, fmt.Sprintf("%s: %s", f.Name(), c.goParam(v, f.Type(), pkg)))
		default:
			// pointers, maps: only the nil value can be rendered
			if r, isInt := intOfSx(v); isInt && r == 0 {
				continue
			}
			c.ok = false
			return "nil"
		}
	}
	return "&" + n.Obj().Name() + "{" + strings.Join(fields, ", ") + "}"
}

// goArgList renders a []interface{} parameter using the E_Val heap of the model for its cells.
func (c *r1ctx) goArgList(v *sx, pkg string) string {
	if v.head() != "mkSlice" || len(v.list) != 5 {
		c.ok = false
		return "nil"
	}
	ref, _ := intOfSx(v.list[1])
	off, _ := intOfSx(v.list[2])
	ln, _ := intOfSx(v.list[3])
	if ln < 0 || ln > 16 {
		c.ok = false
		return "nil"
	}
	var elems []string
	for k := int64(0); k < ln; k++ {
		cell := c.heapCell("E_Val_0", ref, off+k)
		if cell == nil {
			elems = append(elems, "nil")
			continue
		}
		elems = append(elems, c.goVal(cell, pkg))
	}
	return "[]interface{}{" + strings.Join(elems, ", ") + "}"
}

// heapCell evaluates (select (select H ref) idx) in the model when H was printed as nested store/const arrays.
func (c *r1ctx) heapCell(comp string, ref, idx int64) *sx {
	h := c.heap[comp]
	if h == nil {
		return nil
	}
	row := evalArray(h, ref)
	if row == nil {
		return nil
	}
	return evalArray(row, idx)
}

func evalArray(a *sx, idx int64) *sx {
	for a != nil && a.list != nil {
		switch a.head() {
		case "store":
			if len(a.list) != 4 {
				return nil
			}
			if i, ok := intOfSx(a.list[2]); ok && i == idx {
				return a.list[3]
			}
			a = a.list[1]
		default:
			// ((as const (Array ..)) v)
			if len(a.list) == 2 && a.list[0].list != nil && a.list[0].head() == "as" {
				return a.list[1]
			}
			return nil
		}
	}
	return nil
}

func (e *Engine) replayR1(o *Obl, rf *ReplayFile) bool {
	fe := o.fe
	fn := fe.fn
	if fn == nil || fn.Pkg == nil {
		return false
	}
	// parse (get-value ...) output: the first s-expression after "sat"
	out := rf.Model
	i := strings.Index(out, "sat")
	if i < 0 {
		return false
	}
	forms := parseSx(out[i+3:])
	if len(forms) == 0 || forms[0].list == nil {
		return false
	}
	vals := map[string]*sx{}
	for _, pr := range forms[0].list {
		if pr.list != nil && len(pr.list) == 2 {
			vals[pr.list[0].String()] = pr.list[1]
		}
	}
	ctx := &r1ctx{e: e, strs: map[string]string{}, known: map[string]string{}, objs: map[string]string{}, tagName: map[int]string{}, ok: true, heap: map[string]*sx{}}
	for k, v := range vals {
		if strings.HasPrefix(k, "E_") || strings.HasPrefix(k, "G_") {
			ctx.heap[k] = v
		}
	}
	for i, n := range e.sorts.tagNames {
		ctx.tagName[i+1] = n
	}
	ctx.numeric = map[string]string{}
	for _, in := range fe.inputs {
		if in.Sort != SVal {
			continue
		}
		okv := vals["(ext.parsefloat.ok (trStr (vstr "+in.Sym+")))"]
		fv := vals["(ext.parsefloat.val (trStr (vstr "+in.Sym+")))"]
		pv := vals[in.Sym]
		if okv != nil && okv.atom == "true" && fv != nil && pv != nil && pv.head() == "VStr" {
			if b, ok := bitsOfFP(fv); ok {
				x := math.Float64frombits(b)
				if !math.IsNaN(x) && !math.IsInf(x, 0) {
					ctx.numeric[pv.String()] = strconv.FormatFloat(x, 'f', -1, 64)
				}
			}
		}
	}
	if v, ok := vals["str_empty"]; ok {
		ctx.known[v.String()] = ""
	}
	for i, lit := range e.strOrder {
		if v, ok := vals[fmt.Sprintf("strc_%d", i+1)]; ok {
			ctx.known[v.String()] = lit
		}
	}
	pkg := fn.Pkg.Pkg.Name()
	var args []string
	recvCall := ""
	for idx, in := range fe.inputs {
		v, ok := vals[in.Sym]
		if !ok {
			return false
		}
		p := fn.Params[idx]
		var expr string
		if n, _, isPS := fe.structOfPointer(p.Type()); isPS && n.Obj().Pkg() == fn.Pkg.Pkg && n.Obj().Name() != "Interpreter" {
			expr = ctx.goStructPtr(fe, in.Sym, p.Type(), pkg, vals)
		} else {
			expr = ctx.goParam(v, p.Type(), pkg)
		}
		if idx == 0 && fn.Signature.Recv() != nil {
			recvCall = "(" + expr + ")."
			continue
		}
		args = append(args, expr)
	}
	if !ctx.ok {
		rf.Replay = map[string]string{"skipped": "a model value has no Go rendering"}
		return false
	}
	flag := "false"
	if v, ok := vals["G_utils_HadRuntimeError_0"]; ok && v.atom == "true" {
		flag = "true"
	}
	call := recvCall + fn.Name() + "(" + strings.Join(args, ", ") + ")"
	nres := fn.Signature.Results().Len()
	lhs := ""
	show := ""
	if nres > 0 {
		var names []string
		for k := 0; k < nres; k++ {
			names = append(names, fmt.Sprintf("r%d", k))
			show += fmt.Sprintf("\tfmt.Printf(\"RESULT%d %%T %%#v\\n\", r%d, r%d)\n", k, k, k)
		}
		lhs = strings.Join(names, ", ") + " := "
	}
	test := fmt.Sprintf(`package %s

import (
	"fmt"
	"math"
	"testing"

	"github.com/ah-naf/borno/ast"
	"github.com/ah-naf/borno/environment"
	"github.com/ah-naf/borno/token"
	"github.com/ah-naf/borno/utils"
)

var _ = math.Pi
var _ = ast.Literal{}
var _ = environment.NewEnvironment
var _ = token.EOF

func TestReplay(t *testing.T) {
	utils.HadRuntimeError = %s
	utils.HadError = false
	defer func() {
		if r := recover(); r != nil {
			fmt.Printf("PANIC %%v\n", r)
		}
	}()
	%s
	%s%s
%s	fmt.Printf("FLAG %%v\n", utils.HadRuntimeError)
}
`, pkg, flag, strings.Join(ctx.decls, "\n\t"), lhs, call, show)
	if pkg == "utils" || pkg == "token" || pkg == "ast" || pkg == "environment" {
		// import cycles: these packages cannot import the others; keep only what is needed
		test = strings.Replace(test, "\t\"github.com/ah-naf/borno/ast\"\n", "", 1)
		test = strings.Replace(test, "\t\"github.com/ah-naf/borno/environment\"\n", "", 1)
		test = strings.Replace(test, "var _ = ast.Literal{}\n", "", 1)
		test = strings.Replace(test, "var _ = environment.NewEnvironment\n", "", 1)
		if pkg == "utils" {
			test = strings.Replace(test, "\t\"github.com/ah-naf/borno/utils\"\n", "", 1)
			test = strings.ReplaceAll(test, "utils.", "")
		}
		if pkg == "token" {
			return false
		}
	}
	pkgDir := e.snapDir
	rel := strings.TrimPrefix(strings.TrimPrefix(fn.Pkg.Pkg.Path(), repoModule), "/")
	if rel != "" {
		pkgDir = filepath.Join(e.snapDir, rel)
	}
	testFile := filepath.Join(e.scratch, "replay_test.go")
	os.WriteFile(testFile, []byte(test), 0o644)
	ov := map[string]map[string]string{"Replace": {filepath.Join(pkgDir, "zz_replay_test.go"): testFile}}
	ovb, _ := json.Marshal(ov)
	ovFile := filepath.Join(e.scratch, "overlay.json")
	os.WriteFile(ovFile, ovb, 0o644)
	cmd := exec.Command("go", "test", "-overlay", ovFile, "-vet=off", "-count=1", "-timeout", "60s", "-run", "^TestReplay$", "-v", ".")
	cmd.Dir = pkgDir
	cmd.Env = append(os.Environ(), "GOFLAGS=-mod=mod", "GOPROXY=off", "GOSUMDB=off", "GOTOOLCHAIN=local")
	done := make(chan struct{})
	var outb []byte
	go func() { outb, _ = cmd.CombinedOutput(); close(done) }()
	select {
	case <-done:
	case <-time.After(90 * time.Second):
		if cmd.Process != nil {
			cmd.Process.Kill()
		}
		<-done
	}
	res := string(outb)
	rf.Replay = map[string]string{"call": call, "test": test, "output": truncate(res, 6000)}
	if strings.HasPrefix(o.Kind, "safety.") {
		return strings.Contains(res, "PANIC ")
	}
	// postconditions: re-evaluate the contract on the observed outputs
	return e.confirmPost(o, rf, vals, res, fe)
}

// confirmPost fixes the inputs to the model's values and the outputs to the observed ones and asks whether the
// postcondition is false: `sat` confirms the violation on the real code.
func (e *Engine) confirmPost(o *Obl, rf *ReplayFile, vals map[string]*sx, res string, fe *FuncEnc) bool {
	if strings.Contains(res, "PANIC ") {
		rf.Replay["verdict"] = "the real function panics on the model's input"
		return true
	}
	var eqs []string
	for _, in := range fe.inputs {
		if v, ok := vals[in.Sym]; ok && !strings.Contains(v.String(), "!val!") {
			eqs = append(eqs, fmt.Sprintf("(assert (= %s %s))", in.Sym, v.String()))
		}
	}
	if v, ok := vals["G_utils_HadRuntimeError_0"]; ok {
		eqs = append(eqs, "(assert (= G_utils_HadRuntimeError_0 "+v.atom+"))")
	}
	// observed outputs of simple kinds
	obs := 0
	for _, line := range strings.Split(res, "\n") {
		line = strings.TrimSpace(line)
		if !strings.HasPrefix(line, "RESULT0 ") {
			continue
		}
		f := strings.Fields(line)
		if len(f) < 3 {
			continue
		}
		var term string
		switch f[1] {
		case "float64":
			if x, err := strconv.ParseFloat(f[2], 64); err == nil {
				term = "(VF64 " + tF64(x).S + ")"
			} else if f[2] == "NaN" {
				term = "(VF64 (_ NaN 11 53))"
			} else if f[2] == "+Inf" {
				term = "(VF64 (_ +oo 11 53))"
			} else if f[2] == "-Inf" {
				term = "(VF64 (_ -oo 11 53))"
			}
		case "bool":
			term = "(VBool " + f[2] + ")"
		case "<nil>":
			term = "VNil"
		case "int64":
			if x, err := strconv.ParseInt(f[2], 10, 64); err == nil {
				term = "(VI64 " + tBV64(uint64(x)).S + ")"
			}
		case "int":
			if x, err := strconv.ParseInt(f[2], 10, 64); err == nil {
				term = "(VInt " + tInt(x).S + ")"
			}
		}
		if term != "" {
			rf.Replay["observed_result"] = term
			obs++
			// the result symbol is the last `result_N` definition of the function
			for k := len(fe.items) - 1; k >= 0; k-- {
				if strings.HasPrefix(fe.items[k].Def, "result_") && strings.Contains(fe.items[k].Text, " Val ") {
					eqs = append(eqs, fmt.Sprintf("(assert (= %s %s))", fe.items[k].Def, term))
					break
				}
			}
		}
	}
	script := stripQuantified(o.script(e.header()))
	script = strings.Replace(script, "(check-sat)", strings.Join(eqs, "\n")+"\n(check-sat)", 1)
	file := filepath.Join(e.scratch, "confirm.smt2")
	os.WriteFile(file, []byte(script), 0o644)
	cmd := exec.Command("z3-new", "-T:30", file)
	outb, _ := cmd.CombinedOutput()
	first := strings.TrimSpace(strings.SplitN(strings.TrimSpace(string(outb)), "\n", 2)[0])
	rf.Replay["confirm"] = "inputs fixed to the model, outputs fixed to the observed values, postcondition negated: " + first
	return first == "sat" && obs > 0
}
