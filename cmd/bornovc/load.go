package main

// Snapshot of /repo, go/packages load, SSA construction.

import (
	"fmt"
	"go/ast"
	"go/token"
	"go/types"
	"os"
	"os/exec"
	"path/filepath"
	"sort"
	"strings"

	"golang.org/x/tools/go/packages"
	"golang.org/x/tools/go/ssa"
	"golang.org/x/tools/go/ssa/ssautil"
)

const repoModule = "github.com/ah-naf/borno"

type Engine struct {
	repoDir     string // source of truth (/repo or VERIF_REPO)
	snapDir     string // snapshot actually loaded
	scratch     string
	fset        *token.FileSet
	pkgs        []*packages.Package
	prog        *ssa.Program
	ssaPkgs     []*ssa.Package
	sorts       *Sorts
	funcs       map[string]*ssa.Function // short name -> function
	fnames      map[*ssa.Function]string
	contracts   map[string]*Contract
	ifaceCons   map[string]*Contract // interface method contracts: "interpreter.Callable.Call"
	modsets     map[*ssa.Function]map[string]bool
	strConsts   map[string]string // literal -> SMT symbol
	strOrder    []string
	specs       *SpecTable
	files       map[string]*ast.File // filename -> syntax
	srcCache    map[string][]byte
	compSorts   map[string]Sort // every heap component ever referenced
	dynTypes    []types.Type    // concrete types that flow into interfaces
	tier        string
	verbose     bool
	rules       map[string]*Rule
	cellinvs    []*CellInv
	tables      []*TableDecl
	lemmas      []*Lemma
	unverified  []string
	typeinvs   []*CellInv
	globalinvs []*CellInv
	specDefs   []*SpecDef
	headerCache map[string]string
	compOwner   map[string]string
	dirty       map[*ssa.Function]map[string]bool
	notCtorOnly map[string]bool
}

func run(dir string, env []string, name string, args ...string) (string, error) {
	cmd := exec.Command(name, args...)
	cmd.Dir = dir
	cmd.Env = append(os.Environ(), env...)
	out, err := cmd.CombinedOutput()
	return string(out), err
}

var goEnv = []string{"GOFLAGS=-mod=mod", "GOPROXY=off", "GOSUMDB=off", "GOTOOLCHAIN=local"}

func newEngine(repo string) (*Engine, error) {
	e := &Engine{repoDir: repo, sorts: newSorts(), funcs: map[string]*ssa.Function{}, fnames: map[*ssa.Function]string{},
		contracts: map[string]*Contract{}, ifaceCons: map[string]*Contract{}, modsets: map[*ssa.Function]map[string]bool{},
		strConsts: map[string]string{}, files: map[string]*ast.File{}, srcCache: map[string][]byte{}, compSorts: map[string]Sort{},
		rules: map[string]*Rule{}, headerCache: map[string]string{}, dirty: map[*ssa.Function]map[string]bool{}}
	scratch, err := os.MkdirTemp("", "bornovc-")
	if err != nil {
		return nil, err
	}
	e.scratch = scratch
	e.snapDir = filepath.Join(scratch, "snap")
	if out, err := run("/", nil, "rsync", "-a", "--exclude", ".git", strings.TrimSuffix(repo, "/")+"/", e.snapDir+"/"); err != nil {
		return nil, fmt.Errorf("snapshot: %v\n%s", err, out)
	}
	return e, nil
}

func (e *Engine) cleanup() {
	if e.scratch != "" {
		os.RemoveAll(e.scratch)
	}
}

func (e *Engine) load() error {
	cfg := &packages.Config{
		Mode:       packages.LoadAllSyntax,
		Dir:        e.snapDir,
		BuildFlags: []string{"-tags=verif"},
		Env:        append(os.Environ(), goEnv...),
	}
	pkgs, err := packages.Load(cfg, "./...")
	if err != nil {
		return err
	}
	var errs []string
	packages.Visit(pkgs, nil, func(p *packages.Package) {
		for _, er := range p.Errors {
			errs = append(errs, er.Error())
		}
	})
	if len(errs) > 0 {
		return fmt.Errorf("load errors:\n%s", strings.Join(errs, "\n"))
	}
	e.pkgs = pkgs
	if len(pkgs) > 0 {
		e.fset = pkgs[0].Fset
	}
	prog, spkgs := ssautil.AllPackages(pkgs, ssa.GlobalDebug|ssa.InstantiateGenerics)
	prog.Build()
	e.prog = prog
	e.ssaPkgs = spkgs
	for _, p := range pkgs {
		for _, f := range p.Syntax {
			e.files[e.fset.Position(f.Pos()).Filename] = f
		}
	}
	// index functions of the repo module
	for fn := range ssautil.AllFunctions(prog) {
		if fn.Pkg == nil || fn.Pkg.Pkg == nil || !strings.HasPrefix(fn.Pkg.Pkg.Path(), repoModule) {
			continue
		}
		if fn.Synthetic != "" && fn.Name() != "init" {
			continue
		}
		n := e.shortFuncName(fn)
		e.funcs[n] = fn
		e.fnames[fn] = n
	}
	return nil
}

func (e *Engine) shortFuncName(fn *ssa.Function) string {
	pkg := ""
	if fn.Pkg != nil {
		pkg = strings.TrimPrefix(fn.Pkg.Pkg.Path(), repoModule)
		pkg = strings.TrimPrefix(pkg, "/")
		if pkg == "" {
			pkg = "main"
		}
	}
	if recv := fn.Signature.Recv(); recv != nil {
		t := recv.Type()
		if p, ok := t.(*types.Pointer); ok {
			t = p.Elem()
		}
		if n, ok := t.(*types.Named); ok {
			return pkg + "." + n.Obj().Name() + "." + fn.Name()
		}
	}
	return pkg + "." + fn.Name()
}

func (e *Engine) funcNames() []string {
	var ns []string
	for n := range e.funcs {
		ns = append(ns, n)
	}
	sort.Strings(ns)
	return ns
}

func (e *Engine) isRepoFunc(fn *ssa.Function) bool {
	_, ok := e.fnames[fn]
	return ok
}

// strConst returns the SMT symbol of a string literal.
func (e *Engine) strConst(lit string) Term {
	if lit == "" {
		return Term{"str_empty", SStr}
	}
	if lit == "\n" {
		return Term{"str_nl", SStr}
	}
	if s, ok := e.strConsts[lit]; ok {
		return Term{s, SStr}
	}
	s := fmt.Sprintf("strc_%d", len(e.strOrder)+1)
	e.strConsts[lit] = s
	e.strOrder = append(e.strOrder, lit)
	return Term{s, SStr}
}

// source text helpers
func (e *Engine) src(filename string) []byte {
	if b, ok := e.srcCache[filename]; ok {
		return b
	}
	b, _ := os.ReadFile(filename)
	e.srcCache[filename] = b
	return b
}

func (e *Engine) nodeText(n ast.Node) string {
	if n == nil {
		return ""
	}
	p := e.fset.Position(n.Pos())
	q := e.fset.Position(n.End())
	b := e.src(p.Filename)
	if p.Offset < 0 || q.Offset > len(b) || p.Offset > q.Offset {
		return ""
	}
	s := string(b[p.Offset:q.Offset])
	return strings.Join(strings.Fields(s), " ")
}

func (e *Engine) relPos(pos token.Pos) string {
	p := e.fset.Position(pos)
	f := strings.TrimPrefix(p.Filename, e.snapDir+"/")
	return fmt.Sprintf("%s:%d", f, p.Line)
}
