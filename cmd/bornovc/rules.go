package main

// Ghost event log (see spec/60_log.smt2) and the effect obligations E1-E3 of C06.

import (
	"go/token"
	"go/types"
	"strings"

	"golang.org/x/tools/go/ssa"
)

const evalFuncName = "interpreter.Interpreter.eval"

type logComp struct {
	name string
	sort Sort
}

var snapComps = []struct{ suffix, comp string }{
	{"MD", "MD_Str_Val"}, {"MV", "MV_Str_Val"}, {"MC", "MC_Str_Val"}, {"EV", "E_Val"},
	{"Out", "G_io_OutN"}, {"Err", "G_io_ErrN"}, {"Flag", "G_utils_HadRuntimeError"},
}

func logComps(e *Engine) []logComp {
	out := []logComp{
		{"LOG_N", SInt}, {"LOG_kind", arrSort(SInt, SInt)}, {"LOG_child", arrSort(SInt, SVal)}, {"LOG_env", arrSort(SInt, SInt)},
		{"LOG_repl", arrSort(SInt, SBool)}, {"LOG_args", arrSort(SInt, SSlice)}, {"LOG_val", arrSort(SInt, SVal)},
		{"LOG_sig", arrSort(SInt, SInt)}, {"LOG_err", arrSort(SInt, SVal)},
		{"LOG_sigT", arrSort(SInt, SInt)}, {"LOG_sigLine", arrSort(SInt, SInt)}, {"LOG_sigVal", arrSort(SInt, SVal)},
	}
	for _, pp := range []string{"pre", "post"} {
		for _, sc := range snapComps {
			out = append(out, logComp{"LOG_" + pp + sc.suffix, arrSort(SInt, e.compSorts[sc.comp])})
		}
	}
	return out
}

func (e *Engine) registerLogComps() {
	e.compSorts["G_utils_HadRuntimeError"] = SBool
	for _, lc := range logComps(e) {
		e.compSorts[lc.name] = lc.sort
	}
}

// isLoggedCall: a call whose execution is an event of the caller's log.
func isLoggedCall(e *Engine, in ssa.Instruction) bool {
	c, ok := in.(ssa.CallInstruction)
	if !ok {
		return false
	}
	cc := c.Common()
	if cc.IsInvoke() {
		if n, ok := cc.Value.Type().(*types.Named); ok && n.Obj().Name() == "Callable" && cc.Method.Name() == "Call" {
			return true
		}
		return false
	}
	if callee := cc.StaticCallee(); callee != nil && e.fnames[callee] == evalFuncName {
		return true
	}
	return false
}

func (e *Engine) hasLog(fn *ssa.Function) bool {
	for _, b := range fn.Blocks {
		for _, in := range b.Instrs {
			if isLoggedCall(e, in) {
				return true
			}
		}
	}
	return false
}

func (fe *FuncEnc) initMonitor(f *Frame, st *State) {
	if !fe.eng.hasLog(f.fn) {
		return
	}
	f.mon = &MonitorCtx{}
	st.heap["LOG_N"] = tInt(0)
}

func (fe *FuncEnc) snapshot(st *State, which string, k Term) {
	for _, sc := range snapComps {
		cur := fe.comp(st, sc.comp, fe.eng.compSorts[sc.comp])
		name := "LOG_" + which + sc.suffix
		log := fe.comp(st, name, fe.eng.compSorts[name])
		st.heap[name] = fe.define(name, tStore(log, k, cur))
	}
}

func (fe *FuncEnc) logSet(st *State, name string, k, v Term) {
	log := fe.comp(st, name, fe.eng.compSorts[name])
	st.heap[name] = fe.define(name, tStore(log, k, v))
}

func (fe *FuncEnc) monCall(f *Frame, callee *ssa.Function, name string, args []Term, st *State, path Term, pos token.Pos) ([]Term, bool) {
	if name != evalFuncName || (f.parent != nil && f.borrow == nil) {
		return nil, false // (an inlined loop helper without contract acts as part of the top invocation)
	}
	con := fe.eng.contracts[name]
	if con == nil {
		return nil, false
	}
	k := fe.define("evk", fe.comp(st, "LOG_N", SInt))
	fe.snapshot(st, "pre", k)
	res := fe.callByContract(f, callee, name, con, args, st, path, pos)
	fe.snapshot(st, "post", k)
	fe.logSet(st, "LOG_kind", k, tInt(1))
	fe.logSet(st, "LOG_child", k, args[1])
	fe.logSet(st, "LOG_env", k, args[2])
	fe.logSet(st, "LOG_repl", k, args[3])
	fe.logSet(st, "LOG_val", k, res[0])
	fe.logSet(st, "LOG_sig", k, res[1])
	fe.logSet(st, "LOG_sigT", k, tSelect(fe.comp(st, "H_interpreter_ControlFlowSignal_Type", arrSort(SInt, SInt)), res[1]))
	fe.logSet(st, "LOG_sigLine", k, tSelect(fe.comp(st, "H_interpreter_ControlFlowSignal_LineNumber", arrSort(SInt, SInt)), res[1]))
	fe.logSet(st, "LOG_sigVal", k, tSelect(fe.comp(st, "H_interpreter_ControlFlowSignal_Value", arrSort(SInt, SVal)), res[1]))
	st.heap["LOG_N"] = fe.define("LOG_N", tAdd(k, tInt(1)))
	return res, true
}

func (fe *FuncEnc) monInvoke(f *Frame, iface, method string, recv Term, args []Term, st *State, path Term, pos token.Pos) ([]Term, bool) {
	return nil, false
}

// invokeLogged wraps an interface-contract call of Callable.Call with the log update and the E1 obligation.
func (fe *FuncEnc) invokeLogged(f *Frame, recv Term, args []Term, st *State, path Term, pos token.Pos, do func() []Term) []Term {
	if (f.mon == nil && (f.borrow == nil || f.borrow.mon == nil)) || (f.parent != nil && f.borrow == nil) {
		return do()
	}
	flag := fe.comp(st, "G_utils_HadRuntimeError", SBool)
	fe.emit("effect.E1", fe.srcLabel(pos, "call"), path, tNot(flag), "C06: no function or built-in is invoked once a runtime error has been reported", pos)
	fe.obls[len(fe.obls)-1].Props = []string{"C06"}
	k := fe.define("evk", fe.comp(st, "LOG_N", SInt))
	fe.snapshot(st, "pre", k)
	res := do()
	fe.snapshot(st, "post", k)
	fe.logSet(st, "LOG_kind", k, tInt(2))
	fe.logSet(st, "LOG_child", k, recv)
	fe.logSet(st, "LOG_args", k, args[1])
	fe.logSet(st, "LOG_val", k, res[0])
	fe.logSet(st, "LOG_err", k, res[1])
	st.heap["LOG_N"] = fe.define("LOG_N", tAdd(k, tInt(1)))
	return res
}

// effectE2: a write to stdout by interpreter code must happen with the error flag down.
func (fe *FuncEnc) effectE2(f *Frame, stubName string, st *State, path Term, pos token.Pos) {
	if fe.fn == nil || fe.fn.Pkg == nil || fe.fn.Pkg.Pkg.Name() != "interpreter" {
		return
	}
	if !strings.HasPrefix(stubName, "fmt.Print") {
		return
	}
	if strings.Contains(fe.name, "NativeInputFn") {
		// the prompt of ইনপুট is written by a built-in; E1 already forbids invoking it with the flag up
		return
	}
	flag := fe.comp(st, "G_utils_HadRuntimeError", SBool)
	fe.emit("effect.E2", fe.srcLabel(pos, "call"), path, tNot(flag), "C06: nothing is written to stdout once a runtime error has been reported", pos)
	fe.obls[len(fe.obls)-1].Props = []string{"C06"}
}

// nondetMapRange: C13 — Go leaves the iteration order of a map unspecified (and randomises it).  Every range over a map is
// an obligation that can only be discharged by an `orderfree` declaration on the loop, which must name the contract clauses
// that make the outcome independent of the order (they are proved like any other clause; the independence argument itself
// is listed as an assumption).
func (fe *FuncEnc) nondetMapRange(f *Frame, x *ssa.Range, path Term) {
	if f.parent != nil && f.borrow == nil {
		return
	}
	ci := analyzeCFG(f.fn)
	var lc *LoopContract
	for _, li := range ci.loops {
		for _, in := range li.header.Instrs {
			if nx, ok := in.(*ssa.Next); ok && nx.Iter == ssa.Value(x) {
				lc = fe.loopContract(f, li)
			}
		}
	}
	label := fe.srcLabel(x.Pos(), "index")
	if lc != nil && lc.OrderFree != "" {
		fe.obls = append(fe.obls, &Obl{Name: fe.name + "/nondet.maprange:" + label, Func: fe.name, Kind: "nondet.maprange", Label: label, Pos: len(fe.items),
			Goal: tBool(true), Clause: "orderfree: " + lc.OrderFree, SrcPos: fe.eng.relPos(x.Pos()), fe: fe, Status: "unsat", Solver: "declared", Props: []string{"C13"}})
		fe.assumes["map range at "+fe.eng.relPos(x.Pos())+" declared order-independent: "+lc.OrderFree] = true
		return
	}
	fe.emit("nondet.maprange", label, path, tBool(false), "C13: the iteration order of a Go map is unspecified; the outcome of this loop must be shown not to depend on it", x.Pos())
	fe.obls[len(fe.obls)-1].Props = []string{"C13"}
}
