package main

func (fe *FuncEnc) initMonitor(f *Frame) {}
